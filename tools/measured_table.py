#!/venv/bin/python
"""Print the DESIGN.md 8.5 table from evidence/by-tier/<tier>/<id>.json."""
import json, os
V = os.path.dirname(os.path.dirname(os.path.abspath(__file__)))
print("| check | tier | runs | evaluations | distinct non-trivial | wall | runs/hour | notes |")
print("|---|---|---|---|---|---|---|---|")
for pid in ("C06", "C07", "C10", "C18", "C19"):
    for tier in ("quick", "thorough"):
        p = os.path.join(V, "evidence", "by-tier", tier, pid + ".json")
        if not os.path.exists(p):
            continue
        d = json.load(open(p))
        c = d["coverage"]
        note = ""
        if pid == "C07":
            note = f"{c['simulated_time_s']:,.0f} virtual s; {c['faults_fired'].get('net_segments', 0):,} segments; {c['faults_fired'].get('net_reset', 0):,} resets"
        elif pid == "C19":
            note = f"{c['thread_steps']:,} thread steps, {c['thread_switches']:,} switches, {c['distinct_interleavings']:,} distinct interleavings, {c['systematic_sweeps']['preemption_points']:,} sweep points"
        elif pid == "C18":
            note = f"{c['batches']:,} batches, {c['batches_with_every_flip_and_cut']:,} with every flip and cut"
        elif pid == "C06":
            note = f"{c['instances_with_every_cut']:,} instances with every cut, {c['instances_with_sampled_cuts']:,} sampled"
        elif pid == "C10":
            note = f"{c['outcomes'].get('outcome_returned', 0):,} corrupted inputs accepted and re-encoded"
        print(f"| {pid} | {tier} | {c['runs']:,} | {c['evaluations']:,} | {c['distinct_nontrivial']:,} | {d['wall_s']:.0f} s | {c['runs_per_hour']:,} | {note} |")
