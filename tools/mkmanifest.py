import json
BASE="cd /repo && /venv/bin/python -m pytest -ra -q -p no:cacheprovider --timeout=900 --continue-on-collection-errors"
na = {
"C01":"pure function of (class, instance): encode-then-decode identity has no schedule, clock, fault or interleaving in it; deciding it is input enumeration (property-based testing), not simulation. Its stream clause (exact consumption with trailing bytes) is exercised inside C07.",
"C02":"pure byte-for-byte comparison with an independent spec encoder over an input space; nothing a scheduler or fault injector controls can change the answer.",
"C03":"pure decode of reference-encoded foreign bytes (input space only); C10's corruption faults brush its unknown-tag clause but judge only the error taxonomy.",
"C04":"static diff of generator output against the shipped tree; additionally the pinned upstream JSON definitions (/repo/schema, git-ignored) are absent from this sealed sandbox.",
"C05":"decode-then-encode over the wire domain is a pure function of the input bytes; no nondeterminism to simulate.",
"C08":"finite static table over 646 payload classes; no execution-time behaviour.",
"C09":"finite lookup table plus pure error translation; no schedule or fault dependence.",
"C11":"primitive codecs over numeric domains: pure functions.",
"C12":"membership predicates of phantom types: pure predicates.",
"C13":"static coherence of dataclass metadata; inspected, not executed under faults.",
"C14":"static cross-module class attributes.",
"C15":"value-object semantics of frozen dataclasses: pure, no shared state, no I/O.",
"C16":"the generator is a program-to-program function JSON -> modules; its statement contains no fault or schedule.",
"C17":"NewRecordBatch -> bytes is a pure function; kio-written batches appear in C18's workload only as extra reader input.",
}
m = {
 "version":1,
 "setup_cmd":"./check setup",
 "hooks":{"guard":"KIO_VERIF","enable":"none needed: every seam is an existing function argument (the stream), functools cache_clear, sys.settrace or os.fork; checks import kio from /repo/src as it is","baseline_off_cmd":BASE,"source_commits":[],"add_only":True},
 "engines":[{"name":"sim","path":"sim/","serves_properties":["C06","C07","C10","C18","C19"],"kind_free_text":"seeded deterministic simulator: fault-injecting streams, virtual-time asyncio network, baton thread scheduler, fork-isolated goldens, seeded process-environment swarm (time zone, gc mode, calling thread) and a python -O sub-pass; own PRNG, shrinker and JSON replay files"}],
 "checks":[],
 "not_applicable":[{"property_id":k,"reason":v} for k,v in sorted(na.items())],
 "notes":"See DESIGN.md. Exit codes: 0 held (KNOWN-FINDING lines allowed), 1 VIOLATION, 2 harness error (never a verdict). No hook commits in /repo; two unguarded fix: commits (c498023 unknown tagged fields, 23f9ffb LogAppendTime batches); two open known findings in known_findings.json. Self-tests: ./check selftest-determinism, ./check selftest-sensitivity. Seeded changes: seeded/ (111; 110 caught by the quick tier of their property's check, c06w only by C07 and C10), evaluated with tools/seeded.py.",
}
def chk(pid, level, text, note, technique, ref, **kw):
    return {"property_id":pid,"quick_cmd":f"timeout 900 ./check {pid} --tier quick","thorough_cmd":f"timeout 21600 ./check {pid} --tier thorough","evidence_file":f"evidence/{pid}.json","replay_cmd_template":f"./check {pid} --replay {{path}}","engine":"sim","level_claimed":{"category":level,"text":text,"design_ref":ref},"level_note":note,"technique":technique}
import sys
checks = json.load(open("/verif/manifest_checks.json"))
m["checks"]=[chk(**c) for c in checks]
claimed={c["pid"] for c in checks}
pending={"C06","C07","C10","C18","C19"}-claimed
json.dump(m, open("/verif/MANIFEST.json","w"), indent=1); open("/verif/MANIFEST.json","a").write("\n")
