#!/venv/bin/python
"""Print the DESIGN.md table of seeded changes from seeded/*/meta.json."""
import glob, json, os
rows = []
for d in sorted(glob.glob(os.path.join(os.path.dirname(os.path.dirname(os.path.abspath(__file__))), "seeded", "*", ""))):
    n = os.path.basename(d.rstrip("/"))
    m = json.load(open(d + "meta.json"))
    c = m.get("confirmed", {})
    sig = c.get("signatures", {}).get(m["property"], ["-"])
    first = sig[0].split("  (")[0] if sig else "-"
    summ = m["summary"].replace("|", "/").replace("\n", " ")
    if len(summ) > 230:
        summ = summ[:227] + "..."
    needs = m["needs"].replace("|", "/").replace("\n", " ")
    if len(needs) > 200:
        needs = needs[:197] + "..."
    rows.append(f"| `{n}` | {m['property']} | {summ} | {needs} | {', '.join(c.get('detected_by', [])) or '**none**'} | `{first}` |")
print("| id | breaks | change | needs | caught by (quick tier) | first signature of the primary check |")
print("|---|---|---|---|---|---|")
print("\n".join(rows))
