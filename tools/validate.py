#!/usr/bin/env python3-vt
"""Validate MANIFEST.json and evidence/*.json against the schemas (run with python3-vt)."""
import glob, json, sys
import jsonschema
ok = True
def v(path, schema):
    global ok
    try:
        jsonschema.validate(json.load(open(path)), json.load(open(schema)))
        print("valid", path)
    except Exception as e:
        ok = False
        print("INVALID", path, str(e)[:300])
v('/verif/MANIFEST.json', '/root/.vp/MANIFEST.schema.json')
for p in sorted(glob.glob('/verif/evidence/*.json')):
    v(p, '/root/.vp/EVIDENCE.schema.json')
sys.exit(0 if ok else 1)
