#!/venv/bin/python
"""Evaluate a seeded change (directory with patch.diff, demo.py, meta.json).

  tools/seeded.py <dir> [--tests] [--all-checks] [--tier quick] [--in-repo]

Default mode works on a scratch copy of /repo's working tree under $TMPDIR and
points the checks at it with KIO_VERIF_SRC (safe while background runs use
/repo).  --in-repo applies the patch to /repo itself (git apply), runs the
checks and undoes it straight afterwards (git checkout -- .)."""

from __future__ import annotations

import argparse
import json
import os
import shutil
import subprocess
import sys
import tempfile
import time

VERIF = os.path.dirname(os.path.dirname(os.path.abspath(__file__)))
ALL = ("C06", "C07", "C10", "C18", "C19")


def sh(cmd, **kw):
    return subprocess.run(cmd, capture_output=True, text=True, **kw)


def run_check(prop: str, tier: str, env_extra: dict) -> dict:
    env = {**os.environ, **env_extra}
    t0 = time.monotonic()
    c = sh(["timeout", "-s", "KILL", "3000", os.path.join(VERIF, "check"), prop, "--tier", tier], env=env, cwd=VERIF)
    sigs = [ln.strip()[len("violation: "):] for ln in c.stdout.splitlines() if ln.strip().startswith("violation:")]
    viol = [ln for ln in c.stdout.splitlines() if ln.startswith("VIOLATION ")]
    return {"exit": c.returncode, "detected": c.returncode == 1 and bool(viol), "signatures": sigs[:4],
            "wall_s": round(time.monotonic() - t0, 1), "tail": (c.stdout + c.stderr)[-300:] if c.returncode not in (0, 1) else ""}


def main() -> int:
    ap = argparse.ArgumentParser()
    ap.add_argument("dir")
    ap.add_argument("--tests", action="store_true", help="also run the offline-passing unit tests against the patched tree")
    ap.add_argument("--all-checks", action="store_true")
    ap.add_argument("--tier", default="quick")
    ap.add_argument("--in-repo", action="store_true")
    args = ap.parse_args()
    d = os.path.abspath(args.dir)
    meta = json.load(open(os.path.join(d, "meta.json")))
    prop = meta["property"]
    patch = os.path.join(d, "patch.diff")
    demo = os.path.join(d, "demo.py")
    out = {"id": os.path.basename(d), "property": prop}
    tmp = tempfile.mkdtemp(prefix="kio-seeded-")
    try:
        tree = os.path.join(tmp, "tree")
        os.makedirs(tree)
        for sub in ("src", "tests", "pyproject.toml", "setup.cfg"):
            p = os.path.join("/repo", sub)
            if os.path.isdir(p):
                shutil.copytree(p, os.path.join(tree, sub), ignore=shutil.ignore_patterns("__pycache__"))
            elif os.path.exists(p):
                shutil.copy(p, os.path.join(tree, sub))
        r = sh(["/venv/bin/python", demo], env={**os.environ, "PYTHONPATH": os.path.join(tree, "src")}, cwd=tmp, timeout=900)
        out["demo_on_original"] = r.returncode
        a = sh(["git", "apply", "--unsafe-paths", f"--directory={tree}", patch], cwd="/")
        if a.returncode != 0:
            a = sh(["patch", "-p1", "-d", tree, "-i", patch])
        if a.returncode != 0:
            out["error"] = "patch does not apply: " + (a.stderr or a.stdout)[-300:]
            print(json.dumps(out, indent=1))
            return 2
        r = sh(["/venv/bin/python", demo], env={**os.environ, "PYTHONPATH": os.path.join(tree, "src")}, cwd=tmp, timeout=900)
        out["demo_on_patched"] = r.returncode
        out["demo_output_tail"] = (r.stdout + r.stderr)[-300:]
        if args.tests:
            t = sh(["/venv/bin/python", "-m", "pytest", "-q", "-p", "no:cacheprovider", "-m", "not java and not integration",
                    "--timeout=900", "--ignore=tests/test_integration.py", "tests", "src"],
                   env={**os.environ, "PYTHONPATH": os.path.join(tree, "src")}, cwd=tree, timeout=3000)
            last = [ln for ln in t.stdout.splitlines() if " passed" in ln or " failed" in ln][-1:]
            out["unit_tests"] = {"exit": t.returncode, "summary": last[0] if last else t.stdout[-200:]}
        props = ALL if args.all_checks else (prop,)
        out["checks"] = {}
        if args.in_repo:
            st = sh(["git", "-C", "/repo", "status", "--porcelain", "--untracked-files=no"]).stdout.strip()
            if st:
                out["error"] = "/repo has uncommitted changes; refusing --in-repo"
                print(json.dumps(out, indent=1))
                return 2
            ap_ = sh(["git", "-C", "/repo", "apply", patch])
            try:
                if ap_.returncode != 0:
                    out["error"] = "git apply in /repo failed: " + ap_.stderr[-300:]
                else:
                    for p in props:
                        out["checks"][p] = run_check(p, args.tier, {"KIO_VERIF_EVIDENCE_DIR": os.path.join(tmp, "ev"),
                                                                    "KIO_VERIF_REPLAY_DIR": os.path.join(tmp, "rp")})
            finally:
                sh(["git", "-C", "/repo", "checkout", "--", "."])
            out["mode"] = "git apply in /repo, undone"
        else:
            for p in props:
                out["checks"][p] = run_check(p, args.tier, {"KIO_VERIF_SRC": os.path.join(tree, "src"),
                                                            "KIO_VERIF_EVIDENCE_DIR": os.path.join(tmp, "ev"),
                                                            "KIO_VERIF_REPLAY_DIR": os.path.join(tmp, "rp")})
            out["mode"] = "scratch copy via KIO_VERIF_SRC"
    finally:
        shutil.rmtree(tmp, ignore_errors=True)
    print(json.dumps(out, indent=1))
    return 0


if __name__ == "__main__":
    sys.exit(main())
