#!/venv/bin/python
"""Fold the raw output of tools/seeded.py (--tests --all-checks) into seeded/<id>/meta.json + confirm.json.

  tools/seeded_finalize.py <raw.json> <seeded/id> [--missed-first "<why>"]"""
import json, shutil, sys
raw, d = sys.argv[1], sys.argv[2].rstrip("/")
r = json.load(open(raw))
m = json.load(open(d + "/meta.json"))
det = [p for p, c in r.get("checks", {}).items() if c.get("detected")]
m["confirmed"] = {
    "how": "tools/seeded.py <dir> --tests --all-checks: scratch copy of /repo's tree, demo.py on original and patched copy, offline-passing unit tests (pytest -m 'not java and not integration') on the patched copy, then every check's quick tier with KIO_VERIF_SRC pointing at the patched copy",
    "demo_exit_original": r.get("demo_on_original"), "demo_exit_patched": r.get("demo_on_patched"),
    "unit_tests_with_patch": (r.get("unit_tests") or {}).get("summary"),
    "detected_by": det,
    "signatures": {p: c.get("signatures", [])[:3] for p, c in r.get("checks", {}).items() if c.get("detected")},
}
if "--missed-first" in sys.argv:
    m["confirmed"]["missed_at_first_try"] = sys.argv[sys.argv.index("--missed-first") + 1]
m.setdefault("author", "independent sub-agent given only the property text and a scratch worktree")
json.dump(m, open(d + "/meta.json", "w"), indent=1)
shutil.copy(raw, d + "/confirm.json")
print(d, m["property"], det)
