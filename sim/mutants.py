"""Catalogue of source mutants for the sensitivity self-test.  Each is applied
to a scratch copy of /repo/src only (never to /repo).  (file, old, new) edits;
``old`` must occur exactly once."""

R = "kio/serial/readers.py"
W = "kio/serial/writers.py"
P = "kio/serial/_parse.py"
S = "kio/serial/_serialize.py"
RR = "kio/records/readers.py"
RW = "kio/records/writers.py"

READ_EXACT = '''    value = buffer.read(num_bytes)
    if len(value) != num_bytes:
        raise BufferUnderflow(f"Expected to read {num_bytes}, got {len(value)}")
    return value
'''

MUTANTS = [
    # ---------------------------------------------------------------- C06
    {"id": "c06-read-exact-accepts-short", "props": ["C06"], "edits": [(R, READ_EXACT, '''    value = buffer.read(num_bytes)
    if num_bytes > 16 and 0 < len(value) < num_bytes:
        return value
    if len(value) != num_bytes:
        raise BufferUnderflow(f"Expected to read {num_bytes}, got {len(value)}")
    return value
''')]},
    {"id": "c06-compact-bytes-plain-read", "props": ["C06"], "edits": [(R, '''            "Unexpectedly read null where compact string/bytes was expected"
        )
    return read_exact(buffer, length)''', '''            "Unexpectedly read null where compact string/bytes was expected"
        )
    if length > 64:
        return buffer.read(length)
    return read_exact(buffer, length)''')]},
    {"id": "c06-varint-empty-terminates", "props": ["C06"], "edits": [(R, '''        (byte,) = read_exact(buffer, 1)
''', '''        chunk = read_exact(buffer, 1) if shift == 0 else buffer.read(1)
        if not chunk:
            return result  # type: ignore[return-value]
        (byte,) = chunk
''')]},
    {"id": "c06-array-swallows-underflow", "props": ["C06"], "edits": [(R, '''        length = read_compact_array_length(buffer)
        if length == -1:
            return None
        return tuple(item_reader(buffer) for _ in range(length))''', '''        length = read_compact_array_length(buffer)
        if length == -1:
            return None
        items = []
        try:
            for _ in range(length):
                items.append(item_reader(buffer))
        except BufferUnderflow:
            pass
        return tuple(items)''')]},
    {"id": "c06-underflow-as-eoferror", "props": ["C06"], "edits": [(R, '''def read_datetime_i64(buffer: IO[bytes]) -> TZAware:
    return tz_aware_from_i64(read_int64(buffer))''', '''def read_datetime_i64(buffer: IO[bytes]) -> TZAware:
    data = buffer.read(8)
    if len(data) != 8:
        raise EOFError("short timestamp")
    return tz_aware_from_i64(struct.unpack(">q", data)[0])''')]},
    {"id": "c06-retry-loop-at-eof", "props": ["C06", "C10"], "edits": [(R, READ_EXACT, '''    value = buffer.read(num_bytes)
    while num_bytes > 64 and len(value) < num_bytes:
        value += buffer.read(num_bytes - len(value))
    if len(value) != num_bytes:
        raise BufferUnderflow(f"Expected to read {num_bytes}, got {len(value)}")
    return value
''')]},
    {"id": "c06-legacy-string-short-ok", "props": ["C06"], "edits": [(R, '''    length = read_int16(buffer)
    if length == -1:
        return None
    return read_exact(buffer, length).decode()''', '''    length = read_int16(buffer)
    if length == -1:
        return None
    return buffer.read(length).decode()''')]},
    # ---------------------------------------------------------------- C07
    {"id": "c07-tag-count-backpatch-seek", "props": ["C07"], "edits": [(S, '''            # Write number of tagged fields followed by the serialized tags.
            write_unsigned_varint(buffer, uvarint(num_tagged_fields))
            buffer.write(tag_buffer.getvalue())''', '''            # Write number of tagged fields followed by the serialized tags.
            if num_tagged_fields == 0:
                write_unsigned_varint(buffer, uvarint(0))
            else:
                start = buffer.tell()
                write_unsigned_varint(buffer, uvarint(0))
                buffer.write(tag_buffer.getvalue())
                end = buffer.tell()
                buffer.seek(start)
                write_unsigned_varint(buffer, uvarint(num_tagged_fields))
                buffer.seek(end)''')]},
    {"id": "c07-write-return-value-used", "props": ["C07"], "edits": [(W, '''    write_unsigned_varint(buffer, uvarint(len(value) + 1))
    buffer.write(value)''', '''    write_unsigned_varint(buffer, uvarint(len(value) + 1))
    if buffer.write(value) != len(value):
        buffer.write(value)''')]},
    {"id": "c07-reused-bytearray-scratch", "props": ["C07"], "edits": [(W, '''def write_int32(buffer: Writable, value: i32) -> None:
    buffer.write(struct.pack(">i", value))''', '''_int32_scratch = bytearray(4)


def write_int32(buffer: Writable, value: i32) -> None:
    struct.pack_into(">i", _int32_scratch, 0, value)
    buffer.write(_int32_scratch)''')]},
    {"id": "c07-nullable-marker-peek-seek", "props": ["C07"], "edits": [(P, '''        marker = NullableEntityMarker(read_int8(buffer))
        return None if marker is NullableEntityMarker.null else read_entity(buffer)''', '''        marker = NullableEntityMarker(read_int8(buffer))
        if marker is NullableEntityMarker.null:
            return None
        buffer.seek(-1, 1)
        read_int8(buffer)
        return read_entity(buffer)''')]},
    {"id": "c07-tagged-section-read-rest", "props": ["C07", "C06"], "edits": [(P, '''        num_tagged_fields = readers.read_unsigned_varint(buffer)
        for _ in range(num_tagged_fields):''', '''        num_tagged_fields = readers.read_unsigned_varint(buffer)
        if num_tagged_fields:
            import io as _io

            buffer = _io.BytesIO(buffer.read())
        for _ in range(num_tagged_fields):''')]},
    {"id": "c07-read-exact-uses-read1", "props": ["C07", "C06"], "edits": [(R, READ_EXACT, '''    read = getattr(buffer, "read1", buffer.read)
    value = read(num_bytes)
    if len(value) != num_bytes:
        raise BufferUnderflow(f"Expected to read {num_bytes}, got {len(value)}")
    return value
''')]},
    # ---------------------------------------------------------------- C10
    {"id": "c10-unknown-tag-keyerror-reintroduced", "props": ["C10"], "edits": [(P, '''            if field_tag not in tagged_field_readers:
                # Skip tagged fields unknown to this schema version, see KIP-482.
                readers.read_exact(buffer, field_length)
                continue
''', "")]},
    {"id": "c10-prealloc-array", "props": ["C10"], "edits": [(R, '''        length = read_legacy_array_length(buffer)
        if length == -1:
            return None
        return tuple(item_reader(buffer) for _ in range(length))''', '''        length = read_legacy_array_length(buffer)
        if length == -1:
            return None
        items = [None] * max(length, 0)
        for i in range(length):
            items[i] = item_reader(buffer)
        return tuple(items)''')]},
    {"id": "c10-assert-on-marker", "props": ["C10"], "edits": [(P, '''        marker = NullableEntityMarker(read_int8(buffer))''', '''        raw_marker = read_int8(buffer)
        assert raw_marker in (-1, 1), raw_marker
        marker = NullableEntityMarker(raw_marker)''')]},
    {"id": "c10-errorcode-dict-lookup", "props": ["C10"], "edits": [(R, '''def read_error_code(buffer: IO[bytes]) -> ErrorCode:
    return ErrorCode(read_int16(buffer))''', '''_error_codes = {e.value: e for e in ErrorCode}


def read_error_code(buffer: IO[bytes]) -> ErrorCode:
    return _error_codes[read_int16(buffer)]''')]},
    {"id": "c10-bool-strict-index", "props": ["C10"], "edits": [(R, '''def read_boolean(buffer: IO[bytes]) -> bool:
    return struct.unpack(">?", read_exact(buffer, 1))[0]  # type: ignore[no-any-return]''', '''def read_boolean(buffer: IO[bytes]) -> bool:
    return (False, True)[read_exact(buffer, 1)[0]]''')]},
    {"id": "c10-tagged-duplicate-recursion", "props": ["C10"], "expect": "miss (needs ~1000 repetitions of one tagged field inside one message; the corruption model repeats a segment once)", "edits": [(P, '''            field, field_reader, _ = tagged_field_readers[field_tag]
            tagged_field_values[field.name] = field_reader(buffer)''', '''            field, field_reader, _ = tagged_field_readers[field_tag]
            if field.name in tagged_field_values:
                return read_entity(buffer)
            tagged_field_values[field.name] = field_reader(buffer)''')]},
    # ---------------------------------------------------------------- C18
    {"id": "c18-crc-one-byte-less", "props": ["C18"], "edits": [
        (RR, "crc32c(batch_buffer.read(batch_length - attributes_pos))", "crc32c(batch_buffer.read(batch_length - attributes_pos - 1))"),
        (RW, "crc=u32(crc32c.crc32c(post_checksum))", "crc=u32(crc32c.crc32c(post_checksum[:-1]))")]},
    {"id": "c18-crc-skipped-when-zero", "props": ["C18"], "edits": [(RR, "if crc != crc32c(", "if crc and crc != crc32c(")]},
    {"id": "c18-magic-check-loosened", "props": ["C18"], "edits": [(RR, "if magic_byte != RecordBatch.magic:", "if magic_byte < RecordBatch.magic:")]},
    {"id": "c18-offset-from-index", "props": ["C18"], "edits": [
        (RR, '''        for _ in range(num_records):
            record = read_record(batch_buffer, base_timestamp, base_offset)''', '''        for index in range(num_records):
            record = read_record(batch_buffer, base_timestamp, base_offset)
            if record.offset != base_offset + index:
                import dataclasses

                record = dataclasses.replace(record, offset=i64(base_offset + index))'''),
    ]},
    {"id": "c18-key-value-swapped-symmetric", "props": ["C18"], "edits": [
        (RR, '''            key=read_signed_compact_string_as_bytes_nullable(record_buffer),
            value=read_signed_compact_string_as_bytes_nullable(record_buffer),''', '''            value=read_signed_compact_string_as_bytes_nullable(record_buffer),
            key=read_signed_compact_string_as_bytes_nullable(record_buffer),'''),
        (RW, '''        write_signed_compact_bytes(record_buffer, record.key)
        write_signed_compact_bytes(record_buffer, record.value)''', '''        write_signed_compact_bytes(record_buffer, record.value)
        write_signed_compact_bytes(record_buffer, record.key)''')]},
    {"id": "c18-prepared-batch-recomputed", "props": ["C18"], "edits": [(RW, '''def write_prepared_batch(buffer: IO[bytes], batch: RecordBatch) -> None:
''', '''def write_prepared_batch(buffer: IO[bytes], batch: RecordBatch) -> None:
    return write_new_batch(
        buffer,
        NewRecordBatch(
            producer_id=batch.producer_id,
            producer_epoch=batch.producer_epoch,
            partition_leader_epoch=batch.partition_leader_epoch,
            base_sequence=batch.base_sequence,
            records=batch.records,
            attributes=batch.attributes,
        ),
    )
''')]},
    {"id": "c18-empty-header-value-as-null", "props": ["C18"], "edits": [(RR, '''    elif length < 0:
        raise ValueError(f"Invalid length for signed compact string: {length}")
    return buffer.read(length)''', '''    elif length < 0:
        raise ValueError(f"Invalid length for signed compact string: {length}")
    return buffer.read(length) or None''')]},
    {"id": "c18-crc-checked-only-for-small", "props": ["C18"], "edits": [(RR, "if crc != crc32c(", "if batch_length < 4096 and crc != crc32c(")]},
    # ---------------------------------------------------------------- C19
    {"id": "c19-module-scratch-buffer", "props": ["C19"], "edits": [
        (W, '''    with closing(io.BytesIO()) as value_buffer:
        writer(value_buffer, value)
        encoded = value_buffer.getvalue()
''', '''    value_buffer = _scratch
    writer(value_buffer, value)
    encoded = value_buffer.getvalue()
    value_buffer.seek(0)
    value_buffer.truncate()
'''),
        (W, "def write_tagged_field(", "_scratch = io.BytesIO()\n\n\ndef write_tagged_field(")]},
    {"id": "c19-tagged-values-hoisted", "props": ["C19"], "edits": [
        (P, "    def read_entity(buffer: IO[bytes]) -> E:", "    tagged_field_values = {}\n\n    def read_entity(buffer: IO[bytes]) -> E:"),
        (P, "        tagged_field_values = {}\n        num_tagged_fields", "        num_tagged_fields")]},
    {"id": "c19-memo-by-class-name", "props": ["C19"], "edits": [(S, '''@cache
def entity_writer(entity_type: type[E], nullable: bool = False) -> Writer[E | None]:''', '''_memo: dict = {}


def entity_writer(entity_type: type[E], nullable: bool = False) -> Writer[E | None]:
    key = (entity_type.__name__, entity_type.__version__, nullable)
    if key not in _memo:
        _memo[key] = _entity_writer(entity_type, nullable)
    return _memo[key]


def _entity_writer(entity_type: type[E], nullable: bool = False) -> Writer[E | None]:''')]},
    {"id": "c19-kwargs-hoisted", "props": ["C19"], "edits": [
        (P, "    def read_entity(buffer: IO[bytes]) -> E:\n        # Read regular fields.\n        kwargs = {\n            field.name: field_reader(buffer)\n            for field, field_reader in field_readers.items()\n        }\n",
         "    kwargs = {}\n\n    def read_entity(buffer: IO[bytes]) -> E:\n        # Read regular fields.\n        for field, field_reader in field_readers.items():\n            kwargs[field.name] = field_reader(buffer)\n")]},
    {"id": "c19-partial-plan-memo", "props": ["C19"], "edits": [(P, '''@cache
def entity_reader(
    entity_type: type[E],
    nullable: bool = False,
) -> readers.Reader[E | None]:
    field_readers = {}
    tagged_field_readers = {}''', '''_plans: dict = {}


@cache
def entity_reader(
    entity_type: type[E],
    nullable: bool = False,
) -> readers.Reader[E | None]:
    field_readers, tagged_field_readers = _plans.setdefault(entity_type, ({}, {}))
    if field_readers or tagged_field_readers:
        return _finish_reader(entity_type, nullable, field_readers, tagged_field_readers)
    return _build_reader(entity_type, nullable, field_readers, tagged_field_readers)


def _build_reader(entity_type, nullable, field_readers, tagged_field_readers):  # type: ignore[no-untyped-def]'''),
        (P, '''    # Assert we don't find tags for non-flexible models.
    if tagged_field_readers and not entity_type.__flexible__:
        raise ValueError("Found tagged fields on a non-flexible model")

    def read_entity(buffer: IO[bytes]) -> E:''', '''    return _finish_reader(entity_type, nullable, field_readers, tagged_field_readers)


def _finish_reader(entity_type, nullable, field_readers, tagged_field_readers):  # type: ignore[no-untyped-def]
    # Assert we don't find tags for non-flexible models.
    if tagged_field_readers and not entity_type.__flexible__:
        raise ValueError("Found tagged fields on a non-flexible model")

    def read_entity(buffer: IO[bytes]) -> E:''')]},
    {"id": "c07-swallow-oserror-in-array-writer", "props": ["C07"], "edits": [(W, '''            write_compact_array_length(buffer, len(items))
            for item in items:
                item_writer(buffer, item)''', '''            write_compact_array_length(buffer, len(items))
            for item in items:
                try:
                    item_writer(buffer, item)
                except TimeoutError:
                    item_writer(buffer, item)''')]},
]
