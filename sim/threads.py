"""Baton-passing scheduler over real threads.

Exactly one worker thread holds the baton at any time; sys.settrace line
events inside kio's non-schema sources are the pre-emption points; which
thread runs next is decided by a seeded policy (or by a recorded schedule on
replay).  kio has no locks or blocking calls, so a parked thread can never
block the runner."""

from __future__ import annotations

import os
import sys
import threading

from . import steps


class StepCapExceeded(BaseException):
    pass


class Scheduler:
    def __init__(self, rng, policy: dict, step_cap: int, forced: list | None = None, stall_timeout: float = 1.0) -> None:
        self.rng = rng
        # kio has no locks today.  Should a tree add some (a legitimate way to make codec
        # creation thread-safe), a parked thread may hold a lock the running thread needs:
        # the monitor in run() then notices that no step is made and lets another thread run,
        # and a thread that wakes up without the baton parks itself at its next step.
        self.stall_timeout = stall_timeout
        self.stalls = 0
        self._rr_last = None
        self.free_run = False
        self.undetermined = False
        self.deadlock = False
        self.idents: dict[int, int] = {}
        self.policy = policy
        self.step_cap = step_cap
        self.forced = list(forced) if forced is not None else None
        self._forced_i = 0
        self.sems: dict[int, threading.Semaphore] = {}
        self.runnable: list[int] = []
        self.cur: int | None = None
        self.steps = 0
        self.schedule: list = []  # [step, to] for switches; [step, to, "exit"] when a thread finished
        self.switch_sites: list = []
        self.done = threading.Semaphore(0)
        self.errors: dict[int, BaseException] = {}
        self.aborted = False
        self.active: dict[int, list] = {}
        self.probes = {"concurrent_same_class_build": 0, "switch_inside_tagged_scratch": 0, "switch_inside_build": 0}
        pts = policy.get("points")
        self._points = set(pts) if pts else None
        # finer than the property asks for: pre-emption between bytecodes
        self.opcodes = bool(policy.get("opcodes"))
        self._step_event = "opcode" if self.opcodes else "line"

    # -- tracing -------------------------------------------------------------
    def _global_trace(self, frame, event, arg):
        code = frame.f_code
        if not steps.is_traced_file(code.co_filename):
            return None
        if self.opcodes:
            frame.f_trace_opcodes = True
        if code.co_name in ("entity_reader", "entity_writer"):
            me = self.idents.get(threading.get_ident(), self.cur)
            key = (code.co_name, id(frame.f_locals.get("entity_type")), frame.f_locals.get("nullable"))
            for other, stack in self.active.items():
                if other != me and key in stack:
                    self.probes["concurrent_same_class_build"] += 1
                    break
            self.active.setdefault(me, []).append(key)
            return self._local_trace_build
        return self._local_trace

    def _local_trace_build(self, frame, event, arg):
        if event == "return":
            st = self.active.get(self.idents.get(threading.get_ident(), self.cur))
            if st:
                st.pop()
            return self._local_trace_build
        return self._local_trace(frame, event, arg) and self._local_trace_build

    def _local_trace(self, frame, event, arg):
        if self.free_run:
            return self._local_trace
        if event == self._step_event:
            me = self.idents.get(threading.get_ident())
            if me is not None and me != self.cur:
                # woke up from a blocking call while another thread holds the baton
                self.sems[me].acquire()
            self.steps += 1
            n = self.steps
            if n > self.step_cap:
                self.aborted = True
                raise StepCapExceeded(n)
            if len(self.runnable) > 1:
                to = self._decide(n)
                if to is not None and to != self.cur:
                    self._note_switch(frame)
                    self._switch_to(to, n)
        return self._local_trace

    def _decide(self, n: int):
        if self.forced is not None:
            if self._forced_i < len(self.forced) and self.forced[self._forced_i][0] == n and len(self.forced[self._forced_i]) == 2:
                to = self.forced[self._forced_i][1]
                self._forced_i += 1
                return to if to in self.runnable else None
            return None
        if self._points is not None:
            if n not in self._points:
                return None
        elif self.rng.random() >= self.policy["p"]:
            return None
        others = [t for t in self.runnable if t != self.cur]
        return self.rng.choice(others)

    def _note_switch(self, frame) -> None:
        f = frame
        names = []
        while f is not None and len(names) < 12:
            names.append(f.f_code.co_name)
            f = f.f_back
        if "write_tagged_field" in names:
            self.probes["switch_inside_tagged_scratch"] += 1
        if "entity_reader" in names or "entity_writer" in names:
            self.probes["switch_inside_build"] += 1
        if len(self.switch_sites) < 64:
            self.switch_sites.append(f"{os.path.basename(frame.f_code.co_filename)}:{frame.f_lineno}")

    def _switch_to(self, to: int, n: int) -> None:
        if self.free_run:
            return
        me = self.cur
        if self.forced is None:
            self.schedule.append([n, to])
        self.cur = to
        self.sems[to].release()
        self.sems[me].acquire()

    # -- thread lifecycle ------------------------------------------------------
    def _finish(self, me: int) -> None:
        self.runnable.remove(me)
        if not self.runnable:
            self.done.release()
            return
        if self.free_run:
            return
        if self.cur != me:
            return  # finished without holding the baton (it had been blocked); nothing to hand over
        if self.forced is not None:
            to = None
            if self._forced_i < len(self.forced) and len(self.forced[self._forced_i]) == 3:
                to = self.forced[self._forced_i][1]
                self._forced_i += 1
            if to not in self.runnable:
                to = self.runnable[0]
        else:
            to = self.rng.choice(self.runnable)
            self.schedule.append([self.steps, to, "exit"])
        self.cur = to
        self.sems[to].release()

    def run(self, fns: list) -> None:
        threads = []
        for i, fn in enumerate(fns):
            self.sems[i] = threading.Semaphore(0)
            self.runnable.append(i)

            def body(i=i, fn=fn):
                self.sems[i].acquire()
                self.idents[threading.get_ident()] = i
                sys.settrace(self._global_trace)
                try:
                    fn()
                except BaseException as e:  # noqa: BLE001
                    self.errors[i] = e
                finally:
                    sys.settrace(None)
                    self._finish(i)

            th = threading.Thread(target=body, name=f"sim-{i}", daemon=True)
            th.start()
            threads.append(th)
        if self.forced is not None and self.forced and len(self.forced[0]) == 3 and self.forced[0][0] == -1:
            first = self.forced[0][1]
            self._forced_i = 1
        else:
            first = self.rng.choice(self.runnable) if self.forced is None else self.runnable[0]
            if self.forced is None:
                self.schedule.append([-1, first, "start"])
        self.cur = first
        self.sems[first].release()
        last, idle, poll = -1, 0.0, min(0.25, self.stall_timeout / 2)
        fruitless = 0  # consecutive hand-overs after which still no step was made
        while not self.done.acquire(timeout=poll):
            if self.steps != last:
                last, idle, fruitless = self.steps, 0.0, 0
                continue
            idle += poll
            if idle < self.stall_timeout:
                continue
            idle = 0.0
            others = [t for t in self.runnable if t != self.cur]
            self.stalls += 1
            fruitless += 1
            if self.stall_timeout > 0.02:
                # this tree blocks: from now on do not wait that long again
                self.stall_timeout = 0.02
                poll = 0.01
            if not others or fruitless > 2 * len(self.runnable) + 2:
                # Every thread was given the baton in turn and none made a step.  Before calling
                # that a deadlock of the code under test, rule out the scheduler itself: drop the
                # baton discipline, let all threads run freely and wait.  Only if they still do
                # not finish are they really blocked on each other.
                self.free_run = True
                for _ in range(4):
                    for t in list(self.sems):
                        self.sems[t].release()
                if self.done.acquire(timeout=20.0):
                    self.undetermined = True
                    break
                self.deadlock = True
                return
            # strict round-robin over all runnable threads, so that the lock holder gets its turn
            order = sorted(self.runnable)
            start = (order.index(self._rr_last) + 1) if self._rr_last in order else 0
            to = next(t for t in (order[start:] + order[:start]) if t != self.cur)
            self._rr_last = to
            self.schedule.append([self.steps, to, "stall"])
            self.cur = to
            self.sems[to].release()
        for th in threads:
            th.join(timeout=30)
