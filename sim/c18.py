"""C18 - reading a record batch is faithful and rejects damaged data.

Simulated system: a log segment (simulated store) to which a producer appends
record batches and from which a consumer reads them back with
kio.records.readers.read_batch, with storage faults in between.
"""

from __future__ import annotations

import datetime
import io

from . import core, driver, refbatch, streams

PROP = "C18"
LEVEL = "fault_enumeration"
MEM_GIB = 4.0
FINDING_FLOOR = "C18-subsecond-timestamps-floored"
ENUM_LIMIT = 1024
KINDS = ("bytesio", "sim", "buffered")
EPOCH = datetime.datetime(1970, 1, 1, tzinfo=datetime.timezone.utc)

TIERS = {
    "quick": {"runs": 480, "damage_scale": 1.0},
    "thorough": {"runs": 36000, "damage_scale": 2.0},
}


def plan(tier: str, seed: int, scale: float = 1.0) -> list[dict]:
    cfg = TIERS[tier]
    n = max(16, int(cfg["runs"] * scale))
    per = 10 if tier == "quick" else 40
    return [{"seed": seed, "first": i, "count": min(per, n - i), "damage_scale": cfg["damage_scale"]} for i in range(0, n, per)]


# ---- reading through a source kind ------------------------------------------


def _open(kind: str, data: bytes, pos: int, rng_chunks, budget):
    if kind == "sim":
        return streams.SimSource(data, pos=pos, budget=budget)
    if kind == "bytesio":
        b = streams.CountingBytesIO(data, budget=budget)
        b.seek(pos)
        return b
    raw = streams.SimRawSource(data[pos:], streams.seq_chunker(rng_chunks or []), budget=budget)
    return io.BufferedReader(raw, buffer_size=64)


def _pos_of(kind: str, src, start: int, total: int):
    if kind == "sim":
        return src.pos
    if kind == "bytesio":
        return src.tell()
    # BufferedReader over a non-seekable raw stream: whatever is left to hand
    # out tells where the reader stopped.
    src.raw._budget = None
    return total - len(src.read())


def _ts(ms: int) -> datetime.datetime:
    return EPOCH + datetime.timedelta(milliseconds=ms)


def check_intact(model: dict, data: bytes, start: int, end: int, kind: str, chunks) -> tuple[str | None, bool]:
    """Read the batch stored at data[start:end]; compare with the model.
    -> (violation signature or None, floored_finding_reproduced)."""
    from kio.records.readers import read_batch
    from kio.records.writers import write_batch

    src = _open(kind, data, start, chunks, 64 + 4 * (end - start))
    try:
        b = read_batch(src)
    except streams.SimBudgetExceeded:
        return "intact:loop", False
    except core.SimWallAlarm:
        return "intact:wall", False
    except Exception as e:  # noqa: BLE001
        return f"intact:raised:{type(e).__name__}", False
    if _pos_of(kind, src, start, len(data)) != end:
        return "intact:position", False
    hdr = refbatch.header_of(model)
    got = (b.base_offset, b.batch_length, b.partition_leader_epoch, b.crc, b.attributes, b.last_offset_delta,
           b.base_timestamp, b.max_timestamp, b.producer_id, b.producer_epoch, b.base_sequence)
    want = (model["base_off"], hdr["batch_length"], model["ple"], hdr["crc"], model["attrs"], model["lod"], model["base_ts"],
            model["max_ts"], model["pid"], model["pep"], model["bseq"])
    if got != want:
        names = ("base_offset", "batch_length", "partition_leader_epoch", "crc", "attributes", "last_offset_delta",
                 "base_timestamp", "max_timestamp", "producer_id", "producer_epoch", "base_sequence")
        bad = [n for n, g, w in zip(names, got, want) if g != w]
        return f"intact:header-mismatch:{bad[0]}", False
    if len(b.records) != len(model["records"]):
        return "intact:record-count", False
    exact = floored = 0
    for r, m in zip(b.records, model["records"]):
        if r.attributes != m["attr"]:
            return "intact:record-mismatch:attributes", False
        if r.offset != m["off"]:
            return "intact:record-mismatch:offset", False
        if r.key != refbatch._h(m["key"]):
            return "intact:record-mismatch:key", False
        if r.value != refbatch._h(m["val"]):
            return "intact:record-mismatch:value", False
        if tuple((h.key, h.value) for h in r.headers) != tuple((refbatch._h(k), refbatch._h(v)) for k, v in m["hdrs"]):
            return "intact:record-mismatch:headers", False
        if r.timestamp == _ts(m["ts"]):
            exact += 1
        elif m["ts"] % 1000 and r.timestamp == _ts(m["ts"] - m["ts"] % 1000):
            floored += 1
        else:
            return "intact:record-mismatch:timestamp", False
    sink = streams.SimSink()
    try:
        write_batch(sink, b)
    except Exception as e:  # noqa: BLE001
        return f"intact:rewrite-raised:{type(e).__name__}", False
    out = streams.sink_data(sink)
    if floored == 0:
        if out != data[start:end]:
            return "intact:rewrite-differs", False
        return None, False
    # Defect model of the open finding: every sub-second timestamp floored, the
    # rest exact, and the rewrite carries exactly the correspondingly changed deltas.
    subsec = sum(1 for m in model["records"] if m["ts"] % 1000)
    if floored != subsec:
        return "intact:record-mismatch:timestamp-partially-floored", False
    if out != refbatch.predicted_floored_rewrite(model):
        return "intact:rewrite-differs-from-floor-model", False
    return None, True


def apply_damage(data: bytes, dmg: list) -> bytes:
    kind = dmg[0]
    if kind == "cut":
        return data[:dmg[1]]
    m = bytearray(data)
    if kind == "flip":
        m[dmg[1] // 8] ^= 1 << (dmg[1] % 8)
    elif kind == "multi":
        for bit in dmg[1]:
            m[bit // 8] ^= 1 << (bit % 8)
    elif kind == "burst":
        start, mask = dmg[1], dmg[2]
        for i in range(32):
            if mask >> i & 1:
                bit = start + i
                if bit // 8 < len(m):
                    m[bit // 8] ^= 1 << (bit % 8)
    elif kind == "magic":
        m[refbatch.MAGIC_OFFSET] = dmg[1] & 0xFF
    elif kind == "setcrc":
        m[refbatch.CRC_FIELD_START:refbatch.CRC_FIELD_START + 4] = (dmg[1] & 0xFFFFFFFF).to_bytes(4, "big")
        if len(dmg) > 2 and dmg[2] is not None:
            m[dmg[2] // 8] ^= 1 << (dmg[2] % 8)
    else:
        raise ValueError(kind)
    return bytes(m)


def check_damaged(data: bytes, kind: str, chunks) -> str | None:
    from kio.records.readers import read_batch

    src = _open(kind, data, 0, chunks, 64 + 4 * len(data))
    try:
        read_batch(src)
    except streams.SimBudgetExceeded:
        return "loop"
    except core.SimWallAlarm:
        return "wall"
    except Exception:  # noqa: BLE001
        return None
    return "returned"


def model_for(rng, stats) -> tuple[dict, str]:
    r = rng.random()
    if r < 0.06:
        i = rng.randrange(len(refbatch.FIXTURES))
        m, _ = refbatch.decode(refbatch.FIXTURES[i])
        assert refbatch.encode(m) == refbatch.FIXTURES[i]
        stats.inc("workload_broker_fixture")
        return m, "fixture"
    if r < 0.16:
        m = _kio_written(rng, stats)
        if m is not None:
            stats.inc("workload_kio_written")
            return m, "kio_written"
    whole = rng.random() < 0.5
    m = refbatch.gen_model(rng, whole)
    if not m["records"]:
        stats.inc("workload_reference_empty_batch")
    elif all(r["ts"] % 1000 == 0 for r in m["records"]):
        stats.inc("workload_reference_whole_second")
    else:
        stats.inc("workload_reference_sub_second")
    return m, "reference"


def _kio_written(rng, stats):
    """A batch produced by kio's own write_new_batch (secondary input source;
    its validity is property C17, so rejects are only counted)."""
    from kio.records.schema import NewRecordBatch, Record, RecordHeader
    from kio.records.writers import write_batch

    base = refbatch.gen_model(rng, True, big_ok=False)
    if not base["records"]:
        return None
    recs = tuple(
        Record(attributes=r["attr"], timestamp=_ts(r["ts"]), offset=r["off"], key=refbatch._h(r["key"]), value=refbatch._h(r["val"]),
               headers=tuple(RecordHeader(key=refbatch._h(k), value=refbatch._h(v)) for k, v in r["hdrs"]))
        for r in base["records"])
    try:
        buf = io.BytesIO()
        write_batch(buf, NewRecordBatch(producer_id=base["pid"], producer_epoch=base["pep"], partition_leader_epoch=base["ple"],
                                        base_sequence=base["bseq"], records=recs, attributes=base["attrs"]))
        m, end = refbatch.decode(buf.getvalue())
        if end != len(buf.getvalue()) or refbatch.encode(m) != buf.getvalue():
            raise refbatch.RefDecodeError("non-canonical")
        return m
    except Exception:  # noqa: BLE001
        stats.inc("kio_written_rejected_by_reference")
        return None


def _chunks(rng, n: int) -> list[int]:
    mode = rng.choice(streams.CHUNK_MODES)
    ch = streams.rng_chunker(rng, mode)
    out, left = [], n
    while left > 0 and len(out) < 4096:
        c = ch(left)
        out.append(c)
        left -= c
    return out


def damages_for(rng, data: bytes, scale: float) -> list[list]:
    n = len(data)
    nbits = n * 8
    first = refbatch.CRC_FIELD_START * 8
    out: list[list] = []
    if n <= ENUM_LIMIT:
        out.extend(["flip", b] for b in range(first, nbits))
        out.extend(["cut", k] for k in range(n))
    else:
        if n > 262144:
            scale = scale / 12  # very large batches: every damaged read costs a CRC over megabytes
        out.extend(["flip", rng.randrange(first, nbits)] for _ in range(int(768 * scale)))
        cuts = {0, 1, 8, 11, 12, 16, 17, 20, 21, 60, 61, n - 1, n - 2}
        cuts.update(rng.randrange(n) for _ in range(int(256 * scale)))
        out.extend(["cut", k] for k in sorted(c for c in cuts if 0 <= c < n))
    for _ in range(int(48 * scale)):
        k = rng.choice((2, 3))
        out.append(["multi", sorted(rng.sample(range(first, nbits), k))])
    for _ in range(int(48 * scale)):
        mask = rng.getrandbits(32) | 1
        start = rng.randrange(first, max(first + 1, nbits - 32))
        out.append(["burst", start, mask])
    true_crc = int.from_bytes(data[refbatch.CRC_FIELD_START:refbatch.CRC_FIELD_START + 4], "big")
    for v in (0, 0xFFFFFFFF, 1, true_crc ^ 0x80000000, (true_crc + 1) & 0xFFFFFFFF):
        if v != true_crc:
            out.append(["setcrc", v, None])
            out.append(["setcrc", v, rng.randrange(refbatch.CRC_COVERED_START * 8, nbits)])
    magics = [v for v in range(256) if v != 2]
    if n > ENUM_LIMIT:
        magics = rng.sample(magics, 16 if n <= 262144 else 3)
    out.extend(["magic", v] for v in magics)
    return out


def run_task(task: dict) -> dict:
    stats = core.Stats()
    log = core.Log()
    violations = []
    vcount: dict = {}
    findings = []
    samples = []
    distinct = 0
    runs = 0
    floor_count = 0
    floor_example = None

    def report(sig, run_seed, scenario):
        vcount[sig] = vcount.get(sig, 0) + 1
        stats.inc("violating_cases")
        if vcount[sig] <= 2:
            violations.append({"signature": sig, "run_seed": run_seed, "scenario": scenario})

    for idx in range(task["first"], task["first"] + task["count"]):
        core.gc_tick()
        run_seed = core.derive_seed(PROP, task["seed"], idx)
        rng = core.random.Random(run_seed)
        runs += 1
        # --- the segment: 1-4 appended batches, optional garbage after the last one
        nb = rng.choice((1, 1, 2, 3, 4))
        models = [model_for(rng, stats) for _ in range(nb)]
        if rng.random() < 0.15:
            # twin batches: identical checksummed bytes (same CRC, same length), but a
            # different partition leader epoch / base offset - fields outside the CRC
            m0, origin0 = models[rng.randrange(nb)]
            tw = dict(m0)
            if rng.random() < 0.6:
                tw["ple"] = (m0["ple"] + rng.choice((1, 7, -1))) if -(2**31) < m0["ple"] < 2**31 - 8 else 0
            else:
                shift = rng.choice((1, 1000))
                if all(-(2**63) <= r["off"] + shift < 2**63 for r in m0["records"]) and m0["base_off"] + shift < 2**63:
                    tw["base_off"] = m0["base_off"] + shift
                    tw["records"] = [{**r, "off": r["off"] + shift} for r in m0["records"]]
            models.append((tw, "twin"))
            nb += 1
            stats.inc("workload_twin_batches_same_crc")
        blobs = [refbatch.encode(m) for m, _ in models]
        tail = rng.randbytes(rng.choice((0, 0, 1, 7, 30)))
        segment = b"".join(blobs) + tail
        bounds = []
        p = 0
        for b in blobs:
            bounds.append((p, p + len(b)))
            p += len(b)
        stats.inc("batches", nb)
        stats.inc("segment_bytes", len(segment))
        if any(len(b) > 1048576 for b in blobs):
            stats.inc("workload_batch_above_1MiB")
        with core.wall_backstop(600):
            # --- (1) intact sequential read-back from every source kind
            for kind in KINDS:
                for (m, origin), (s, e) in zip(models, bounds):
                    chunks = _chunks(rng, e - s) if kind == "buffered" else None
                    sig, floored = check_intact(m, segment, s, e, kind, chunks)
                    stats.inc("cases")
                    stats.inc("intact_reads")
                    stats.inc(f"intact_{kind}")
                    if sig is not None and sig.endswith(":wall"):
                        stats.inc("wall_alarms")
                        sig = None
                    if sig is not None:
                        report(sig, run_seed, {"mode": "intact", "model": m, "kind": kind, "chunks": chunks,
                                               "prefix_len": s, "origin": origin})
                        log.add("viol", idx, kind, sig)
                    elif floored:
                        floor_count += 1
                        if floor_example is None or e - s < floor_example[0]:
                            floor_example = (e - s, {"run_seed": run_seed, "scenario": {"mode": "intact", "model": m, "kind": kind,
                                                                                          "chunks": chunks, "prefix_len": 0}})
                    else:
                        stats.inc("intact_fully_exact")
                        if all(r["ts"] % 1000 == 0 for r in m["records"]):
                            stats.inc("intact_fully_exact_whole_second")
            # --- (2) storage faults on every batch, one at a time
            for bi, ((m, origin), blob) in enumerate(zip(models, blobs)):
                dmgs = damages_for(rng, blob, task["damage_scale"])
                stats.inc("batches_all_flips_and_cuts" if len(blob) <= ENUM_LIMIT else "batches_sampled_flips_and_cuts")
                for dmg in dmgs:
                    r = rng.random()
                    kind = "bytesio" if r < 0.8 else ("sim" if r < 0.95 else "buffered")
                    bad = apply_damage(blob, dmg)
                    chunks = _chunks(rng, len(bad)) if kind == "buffered" else None
                    out = check_damaged(bad, kind, chunks)
                    stats.inc("cases")
                    stats.inc(f"fault_{dmg[0]}")
                    distinct += 1
                    if out == "wall":
                        stats.inc("wall_alarms")
                        out = None
                    if out is not None:
                        sig = f"damage:{out}:{dmg[0]}"
                        report(sig, run_seed, {"mode": "damage", "model": m, "damage": dmg, "kind": kind, "chunks": chunks,
                                               "origin": origin})
                        log.add("viol", idx, bi, dmg[0], sig)
            # --- (3) torn tail: crash during the last append keeps its first p bytes;
            #         earlier batches stay readable, the torn one must not be served
            if nb > 1:
                s, e = bounds[-1]
                for _ in range(3):
                    pcut = rng.randrange(0, e - s)
                    torn = segment[:s + pcut]
                    src = streams.SimSource(torn, budget=64 + 4 * len(torn))
                    from kio.records.readers import read_batch

                    ok = True
                    try:
                        for i in range(nb - 1):
                            read_batch(src)
                            if src.pos != bounds[i][1]:
                                ok = False
                        served = True
                        try:
                            read_batch(src)
                        except Exception:  # noqa: BLE001
                            served = False
                    except Exception:  # noqa: BLE001
                        ok = False
                        served = False
                    stats.inc("cases")
                    stats.inc("fault_torn_tail")
                    distinct += 1
                    if not ok or served:
                        report("damage:torn-tail-served" if served else "intact:earlier-batch-lost-after-tear", run_seed,
                               {"mode": "torn", "models": [m for m, _ in models], "cut": pcut})
        log.add("run", idx, nb, [len(b) for b in blobs], [o for _, o in models], sorted(vcount.items()))
        if len(samples) < 2:
            samples.append({"segment_batches": nb, "batch_lengths": [len(b) for b in blobs], "origins": [o for _, o in models],
                            "ops": ["append"] * nb + ["read-all x3 source kinds", "flip/cut/multi/burst/magic per batch", "tear last"],
                            "first_model": _clip_model(models[0][0])})
    if floor_count:
        findings.append({"finding": FINDING_FLOOR, "count": floor_count, **floor_example[1]})
    stats.inc("finding_floor_reproduced", floor_count)
    return {"stats": dict(stats), "digest": log.digest(), "violations": violations, "findings": findings, "samples": samples,
            "distinct": distinct, "runs": runs}


def _clip_model(m: dict) -> dict:
    out = dict(m)
    out["records"] = [{**r, "key": _cliphex(r["key"]), "val": _cliphex(r["val"])} for r in m["records"][:3]]
    return out


def _cliphex(h):
    return h if h is None or len(h) <= 64 else h[:64] + f"...({len(h) // 2} bytes)"


# ---- replay / shrink ------------------------------------------------------


def evaluate(scenario: dict):
    mode = scenario["mode"]
    with core.wall_backstop(120):
        if mode == "intact":
            m = scenario["model"]
            blob = refbatch.encode(m)
            pre = b"\x00" * scenario.get("prefix_len", 0)
            sig, floored = check_intact(m, pre + blob, len(pre), len(pre) + len(blob), scenario["kind"], scenario.get("chunks"))
            if sig is None and floored:
                return "finding:" + FINDING_FLOOR
            return sig
        if mode == "damage":
            blob = refbatch.encode(scenario["model"])
            dmg = scenario["damage"]
            try:
                bad = apply_damage(blob, dmg)
            except (IndexError, ValueError):
                return None
            if bad == blob:
                return None
            out = check_damaged(bad, scenario["kind"], scenario.get("chunks"))
            return None if out in (None, "wall") else f"damage:{out}:{dmg[0]}"
        if mode == "torn":
            from kio.records.readers import read_batch

            blobs = [refbatch.encode(m) for m in scenario["models"]]
            seg = b"".join(blobs)
            s = len(seg) - len(blobs[-1])
            if not (0 <= scenario["cut"] < len(blobs[-1])):
                return None
            src = streams.SimSource(seg[:s + scenario["cut"]])
            try:
                for _ in blobs[:-1]:
                    read_batch(src)
            except Exception:  # noqa: BLE001
                return "intact:earlier-batch-lost-after-tear"
            try:
                read_batch(src)
            except Exception:  # noqa: BLE001
                return None
            return "damage:torn-tail-served"
    return None


def _model_candidates(m: dict):
    recs = m["records"]
    if len(recs) > 1:
        for i in range(len(recs)):
            r2 = recs[:i] + recs[i + 1:]
            if i == 0:
                continue  # first record defines base timestamp/offset
            yield {**m, "records": r2, "max_ts": max(r["ts"] for r in r2), "lod": (r2[-1]["off"] - m["base_off"]) if -(2**31) <= r2[-1]["off"] - m["base_off"] < 2**31 else 0}
    for i, r in enumerate(recs):
        for k in ("key", "val"):
            if r[k]:
                yield {**m, "records": recs[:i] + [{**r, k: ""}] + recs[i + 1:]}
        if r["hdrs"]:
            yield {**m, "records": recs[:i] + [{**r, "hdrs": []}] + recs[i + 1:]}
    for k in ("ple", "pid", "pep", "bseq"):
        if m[k] != 0:
            yield {**m, k: 0}
    if m["attrs"] not in (0, 8):
        yield {**m, "attrs": m["attrs"] & 8}  # keep the timestamp-type bit: it decides whether max_ts bounds the records


def candidates(scenario: dict):
    if scenario.get("kind") not in (None, "bytesio"):
        yield {**scenario, "kind": "bytesio", "chunks": None}
    if scenario.get("prefix_len"):
        yield {**scenario, "prefix_len": 0}
    if scenario["mode"] in ("intact", "damage"):
        for m in _model_candidates(scenario["model"]):
            yield {**scenario, "model": m}
    if scenario["mode"] == "damage" and scenario["damage"][0] == "multi" and len(scenario["damage"][1]) > 1:
        for i in range(len(scenario["damage"][1])):
            bits = scenario["damage"][1][:i] + scenario["damage"][1][i + 1:]
            yield {**scenario, "damage": ["multi", bits]}
    if scenario["mode"] == "torn" and len(scenario["models"]) > 2:
        yield {**scenario, "models": scenario["models"][1:]}


def matches_finding(violation: dict, entry: dict) -> bool:
    """Open findings of this check are recognised by their defect model inside
    check_intact(); the signature then names the finding."""
    return violation["signature"] == "finding:" + entry["id"]


# ---- evidence --------------------------------------------------------------


def finalize(stats, tier, runs, distinct, samples, wall):
    coverage = {
        "evaluations": stats.get("cases", 0),
        "distinct_nontrivial": distinct,
        "rule": "one run = one simulated log segment of 1-4 appended batches (reference-encoded whole-second / sub-second, real-broker fixtures, kio-written) "
                "read back intact from 3 source kinds, then damaged one fault at a time: EVERY single-bit flip from the CRC field to the end and EVERY truncation "
                "point for batches <= 1024 bytes (seeded subsets beyond), 2-3 scattered flips, bursts <= 32 bits, CRC field overwritten (0, ~0, +1, ...) alone and with a data flip, every wrong magic byte, torn tail; "
                "distinct_nontrivial counts the damaged reads (each a distinct (batch, fault) pair by construction; all are non-trivial: the stored bytes differ from the valid batch)",
        "samples": samples,
        "exhaustive": False,
        "batches": stats.get("batches", 0),
        "batches_with_every_flip_and_cut": stats.get("batches_all_flips_and_cuts", 0),
        "batches_with_sampled_flips_and_cuts": stats.get("batches_sampled_flips_and_cuts", 0),
        "intact_reads": stats.get("intact_reads", 0),
        "intact_reads_fully_exact": stats.get("intact_fully_exact", 0),
        "intact_reads_fully_exact_whole_second_batches": stats.get("intact_fully_exact_whole_second", 0),
        "intact_reads_matching_floor_defect_model": stats.get("finding_floor_reproduced", 0),
        "workload": {k: v for k, v in sorted(stats.items()) if k.startswith("workload_") or k.startswith("kio_written")},
        "faults_fired": {k: v for k, v in sorted(stats.items()) if k.startswith("fault_")},
        "source_kinds_intact": {k: v for k, v in sorted(stats.items()) if k.startswith("intact_") and k[7:] in KINDS},
        "wall_alarms": stats.get("wall_alarms", 0),
        "simulated_time_s": 0,
        "simulated_time_note": "no clock in kio.records; the store is a byte string, faults are applied between append and read",
        "seeds_per_hour": int(runs / wall * 3600) if wall else 0,
    }
    assumptions = [
        "the reference encoder/decoder in sim/refbatch.py is the specification of the v2 batch format (checked against the four real-broker captures)",
        "CRC-32C detects every 1-3 bit error and every burst <= 32 bits at these lengths, so a damaged batch that is returned is a reader defect, not a collision; truncation behind the CRC field is detected by kio only through the checksum (2^-32 residual)",
        "flips before the CRC field (base offset, batch length, leader epoch) are outside the checksum by format and not part of the property; compressed batches are outside kio's Record API",
        "open finding " + FINDING_FLOOR + " is matched by its defect model only (all sub-second timestamps floored, rest exact, rewrite = model prediction)",
    ]
    problems = []
    for k in ("fault_flip", "fault_cut", "fault_multi", "fault_burst", "fault_magic", "fault_setcrc", "fault_torn_tail", "workload_broker_fixture",
              "workload_kio_written", "workload_reference_whole_second", "workload_reference_sub_second", "workload_reference_empty_batch",
              "workload_twin_batches_same_crc",
              "intact_fully_exact_whole_second"):
        if not stats.get(k):
            problems.append(f"probe {k} never fired")
    return coverage, assumptions, problems
