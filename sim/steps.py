"""Deterministic step counting / interruption via sys.settrace line events
inside kio's own (non-schema) source files."""

from __future__ import annotations

import os
import sys

from . import core

_KIO_DIR = os.path.join(os.path.abspath(core.SRC), "kio") + os.sep
_SCHEMA_DIR = os.path.join(_KIO_DIR, "schema") + os.sep

_traced_cache: dict[str, bool] = {}


def is_traced_file(filename: str) -> bool:
    r = _traced_cache.get(filename)
    if r is None:
        r = filename.startswith(_KIO_DIR) and not filename.startswith(_SCHEMA_DIR)
        _traced_cache[filename] = r
    return r


class StepBudgetExceeded(BaseException):
    pass


class SimInterrupt(BaseException):
    """Asynchronously raised at a chosen line step (what Ctrl-C does)."""


def count_steps(fn, budget: int | None = None) -> tuple[int, object, BaseException | None]:
    """Run fn() counting kio line events; raise StepBudgetExceeded past budget.
    Returns (steps, result, exception)."""
    n = 0

    def local(frame, event, arg):
        nonlocal n
        if event == "line":
            n += 1
            if budget is not None and n > budget:
                raise StepBudgetExceeded(n)
        return local

    def tracer(frame, event, arg):
        if is_traced_file(frame.f_code.co_filename):
            return local
        return None

    old = sys.gettrace()
    sys.settrace(tracer)
    try:
        res = fn()
        exc = None
    except BaseException as e:  # noqa: BLE001
        res = None
        exc = e
    finally:
        sys.settrace(old)
    return n, res, exc


def run_with_interrupt(fn, at_step: int) -> tuple[int, object, BaseException | None, tuple | None]:
    """Run fn(); raise SimInterrupt at the at_step-th kio line event.
    Returns (steps, result, exception, (file, line) where interrupted)."""
    n = 0
    where = None

    def local(frame, event, arg):
        nonlocal n, where
        if event == "line":
            n += 1
            if n == at_step:
                where = (os.path.relpath(frame.f_code.co_filename, _KIO_DIR), frame.f_lineno)
                raise SimInterrupt(at_step)
        return local

    def tracer(frame, event, arg):
        if is_traced_file(frame.f_code.co_filename):
            return local
        return None

    old = sys.gettrace()
    sys.settrace(tracer)
    try:
        res = fn()
        exc = None
    except BaseException as e:  # noqa: BLE001
        res = None
        exc = e
    finally:
        sys.settrace(old)
    return n, res, exc, where


def step_budget(data_len: int, n_fields: int) -> int:
    return 400 * (data_len + n_fields) + 10_000
