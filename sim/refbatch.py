"""Independent reference encoder/decoder for the Kafka v2 record batch format
(KIP-98), written for the harness from the format description.  Uses the same
crc32c C library as kio, but over bytes laid out here."""

from __future__ import annotations

import struct

from crc32c import crc32c

MAX_TS_MS = 253402300799_999
CRC_FIELD_START = 17  # base_offset 8 + batch_length 4 + leader_epoch 4 + magic 1
CRC_COVERED_START = 21
MAGIC_OFFSET = 16


def uvarint(v: int) -> bytes:
    out = bytearray()
    while True:
        b = v & 0x7F
        v >>= 7
        if v:
            out.append(b | 0x80)
        else:
            out.append(b)
            return bytes(out)


def svarint(v: int) -> bytes:
    return uvarint(((v << 1) ^ (v >> 31)) & 0xFFFFFFFF)


def svarlong(v: int) -> bytes:
    return uvarint(((v << 1) ^ (v >> 63)) & 0xFFFFFFFFFFFFFFFF)


def nbytes(b) -> bytes:
    return svarint(-1) if b is None else svarint(len(b)) + b


def _h(x):
    return None if x is None else bytes.fromhex(x)


def enc_record(m: dict, r: dict, ts_override: int | None = None) -> bytes:
    ts = r["ts"] if ts_override is None else ts_override
    body = (
        struct.pack(">b", r["attr"])
        + svarlong(ts - m["base_ts"])
        + svarint(r["off"] - m["base_off"])
        + nbytes(_h(r["key"]))
        + nbytes(_h(r["val"]))
        + svarint(len(r["hdrs"]))
        + b"".join(nbytes(_h(k)) + nbytes(_h(v)) for k, v in r["hdrs"])
    )
    return svarint(len(body)) + body


def enc_post(m: dict, floor_ts: bool = False) -> bytes:
    recs = b"".join(enc_record(m, r, (r["ts"] - r["ts"] % 1000) if floor_ts else None) for r in m["records"])
    return struct.pack(">hiqqqhii", m["attrs"], m["lod"], m["base_ts"], m["max_ts"], m["pid"], m["pep"], m["bseq"],
                       len(m["records"])) + recs


def encode(m: dict) -> bytes:
    post = enc_post(m)
    return struct.pack(">qiibI", m["base_off"], len(post) + 9, m["ple"], 2, crc32c(post)) + post


def header_of(m: dict) -> dict:
    post = enc_post(m)
    return {"batch_length": len(post) + 9, "crc": crc32c(post)}


def predicted_floored_rewrite(m: dict) -> bytes:
    """What write_batch(read_batch(b)) yields under the defect model 'record
    timestamps floored to whole seconds, everything else (incl. the stored crc
    and batch_length) kept'."""
    post = enc_post(m)
    return struct.pack(">qiibI", m["base_off"], len(post) + 9, m["ple"], 2, crc32c(post)) + enc_post(m, floor_ts=True)


class RefDecodeError(Exception):
    pass


class _R:
    def __init__(self, data: bytes, pos: int = 0):
        self.d = data
        self.p = pos

    def take(self, n: int) -> bytes:
        if n < 0 or self.p + n > len(self.d):
            raise RefDecodeError("underflow")
        v = self.d[self.p:self.p + n]
        self.p += n
        return v

    def uvar(self, maxb: int) -> int:
        res = 0
        for i in range(maxb):
            (b,) = self.take(1)
            res |= (b & 0x7F) << (7 * i)
            if not b & 0x80:
                return res
        raise RefDecodeError("varint too long")

    def svar(self) -> int:
        v = self.uvar(5)
        return (v >> 1) ^ -(v & 1)

    def slong(self) -> int:
        v = self.uvar(10)
        return (v >> 1) ^ -(v & 1)

    def nb(self):
        n = self.svar()
        if n == -1:
            return None
        if n < 0:
            raise RefDecodeError("negative length")
        return self.take(n)


def decode(data: bytes, pos: int = 0) -> tuple[dict, int]:
    r = _R(data, pos)
    base_off, blen, ple, magic, crc = struct.unpack(">qiibI", r.take(21))
    if magic != 2:
        raise RefDecodeError("magic")
    end = pos + 12 + blen
    if end > len(data):
        raise RefDecodeError("short batch")
    if crc32c(data[pos + 21:end]) != crc:
        raise RefDecodeError("crc")
    attrs, lod, base_ts, max_ts, pid, pep, bseq, n = struct.unpack(">hiqqqhii", r.take(40))
    recs = []
    for _ in range(n):
        ln = r.svar()
        stop = r.p + ln
        (attr,) = struct.unpack(">b", r.take(1))
        ts = base_ts + r.slong()
        off = base_off + r.svar()
        key = r.nb()
        val = r.nb()
        hdrs = []
        for _ in range(r.svar()):
            k = r.nb()
            v = r.nb()
            hdrs.append([None if k is None else k.hex(), None if v is None else v.hex()])
        if r.p != stop:
            raise RefDecodeError("record length mismatch")
        recs.append({"attr": attr, "ts": ts, "off": off, "key": None if key is None else key.hex(),
                     "val": None if val is None else val.hex(), "hdrs": hdrs})
    if r.p != end:
        raise RefDecodeError("trailing bytes in batch")
    return ({"base_off": base_off, "ple": ple, "attrs": attrs, "lod": lod, "base_ts": base_ts, "max_ts": max_ts,
             "pid": pid, "pep": pep, "bseq": bseq, "records": recs}, end)


# real-broker batches (Kafka 0.11 / 1.x captures, via kafka-python; the same
# bytes that tests/records/fixtures.py holds, split into single batches)
FIXTURES = (
    b"\x00\x00\x00\x00\x00\x00\x00\x00\x00\x00\x00;\x00\x00\x00\x01\x02\x03"
    b"\x18\xa2p\x00\x00\x00\x00\x00\x00\x00\x00\x01]\xff{\x06<\x00\x00\x01]"
    b"\xff{\x06<\xff\xff\xff\xff\xff\xff\xff\xff\xff\xff\xff\xff\xff\xff\x00"
    b"\x00\x00\x01\x12\x00\x00\x00\x01\x06123\x00",
    b"\x00\x00\x00\x00\x00\x00\x00\x01\x00\x00\x00@\x00\x00\x00\x02\x02\xc8"
    b"\\\xbd#\x00\x00\x00\x00\x00\x01\x00\x00\x01]\xff|\xddl\x00\x00\x01]\xff"
    b"|\xde\x14\xff\xff\xff\xff\xff\xff\xff\xff\xff\xff\xff\xff\xff\xff\x00"
    b"\x00\x00\x02\x0c\x00\x00\x00\x01\x00\x00\x0e\x00\xd0\x02\x02\x01\x00"
    b"\x00",
    b"\x00\x00\x00\x00\x00\x00\x00\x03\x00\x00\x00;\x00\x00\x00\x02\x02.\x0b"
    b"\x85\xb7\x00\x00\x00\x00\x00\x00\x00\x00\x01]\xff|\xe7\x9d\x00\x00\x01]"
    b"\xff|\xe7\x9d\xff\xff\xff\xff\xff\xff\xff\xff\xff\xff\xff\xff\xff\xff"
    b"\x00\x00\x00\x01\x12\x00\x00\x00\x01\x06123\x00",
    b"\x00\x00\x00\x00\x00\x00\x00\x00\x00\x00\x00E\x00\x00\x00\x00\x02\\"
    b"\xd8\xefR\x00\x00\x00\x00\x00\x00\x00\x00\x01e\x85\xb6\xf3\xc1\x00\x00"
    b"\x01e\x85\xb6\xf3\xc1\xff\xff\xff\xff\xff\xff\xff\xff\xff\xff\xff\xff"
    b"\xff\xff\x00\x00\x00\x01&\x00\x00\x00\x01\x06hdr\x02\x08hkey\x08hval",
)


# ---- generator ---------------------------------------------------------------


def _blob(rng, big_ok: bool):
    c = rng.random()
    if c < 0.2:
        return None
    if c < 0.35:
        return ""
    if big_ok and c < 0.353:
        # a record above the broker's default message.max.bytes (legal where that limit was raised)
        return rng.randbytes(rng.choice((1048576, 1048577, 1300000))).hex()
    if big_ok and c < 0.37:
        return rng.randbytes(rng.choice((8191, 16384, 65536))).hex()
    return rng.randbytes(rng.choice((1, 2, 3, 7, 63, 64, 65, 127, 128, 300))).hex()


def gen_model(rng, whole_seconds: bool, big_ok: bool = True) -> dict:
    n = rng.choice((1, 1, 2, 2, 3, 4, 5, 6))
    many = rng.random() < 0.03
    if many:
        # a high-throughput producer: hundreds of tiny records in one batch
        n = rng.choice((255, 256, 257, 258, 300, 1000))
        big_ok = False
    base_off = rng.choice((0, 1, rng.randrange(0, 2**40), 2**63 - 1 - 2**31, rng.randrange(0, 2**62)))
    max_s = MAX_TS_MS // 1000
    if whole_seconds:
        base_ts = rng.choice((0, 1, rng.randrange(0, max_s), rng.randrange(946684800, 2208988800), max_s)) * 1000
        tss = [base_ts] + [min(max_s * 1000, max(0, base_ts + 1000 * rng.randint(-5000, 5000))) for _ in range(n - 1)]
        if n > 1 and rng.random() < 0.1:
            tss[rng.randrange(1, n)] = rng.randrange(0, max_s) * 1000  # anywhere: a 6-7 byte timestamp delta
    else:
        base_ts = rng.choice((1, 999, 1001, rng.randrange(0, MAX_TS_MS), rng.randrange(946684800_000, 2208988800_000), MAX_TS_MS))
        tss = [base_ts] + [min(MAX_TS_MS, max(0, base_ts + rng.randint(-5_000_000, 5_000_000))) for _ in range(n - 1)]
        if n > 1 and rng.random() < 0.1:
            tss[rng.randrange(1, n)] = rng.randrange(0, MAX_TS_MS)
        if all(t % 1000 == 0 for t in tss):
            tss[-1] += 1 if tss[-1] < MAX_TS_MS else -1
            base_ts = tss[0]
    offs = [base_off]
    for _ in range(n - 1):
        r = rng.random()
        if r < 0.04:
            d = rng.choice((-(2**31), 2**31 - 1, -(2**31) + 1, 2**30, -(2**30), 63, 64, -64, -65, 8191, 8192))
        else:
            d = rng.randint(-100, 2**31 - 1) if r < 0.14 else rng.randint(-50, 1000)
        offs.append(min(2**63 - 1, max(-(2**63), base_off + d)))
    lod = offs[-1] - base_off if -(2**31) <= offs[-1] - base_off < 2**31 else 0
    max_ts = max(tss)
    if rng.random() < 0.3:
        # compacted-style batch (log cleaner keeps base offset/timestamp, last
        # offset delta and max timestamp while the records that defined them
        # are gone): header values are not derivable from the records
        if n > 1:
            keep = sorted(rng.sample(range(n), rng.randint(1, n - 1)))
            tss = [tss[i] for i in keep]
            offs = [offs[i] for i in keep]
            n = len(keep)
        lod = min(2**31 - 1, max(lod, 0) + rng.choice((0, 1, 1000)))
        if whole_seconds:
            max_ts = min(max_s * 1000, max_ts + 1000 * rng.choice((0, 1, 3600)))
        else:
            max_ts = min(MAX_TS_MS, max_ts + rng.choice((0, 1, 999, 3600_000)))
    recs = []
    for i in range(n):
        if many:
            recs.append({"attr": 0, "ts": tss[i], "off": offs[i], "key": None if i % 3 else "6b", "val": rng.randbytes(rng.randint(0, 3)).hex(),
                         "hdrs": []})
            continue
        hdrs = [[_blob(rng, False) or rng.randbytes(rng.randint(0, 9)).hex(), _blob(rng, False)] for _ in range(rng.choice((0, 0, 1, 2, 4)))]
        recs.append({"attr": rng.randint(-128, 127), "ts": tss[i], "off": offs[i], "key": _blob(rng, False),
                     "val": _blob(rng, big_ok), "hdrs": hdrs})
    if rng.random() < 0.09:
        # LogAppendTime batch (attributes bit 3): the broker overwrote max_timestamp
        # with its append time and left the records' own (create-time) deltas
        # untouched, so max_timestamp may be LOWER than a record timestamp
        attrs_extra = 8
        hi_ms = max(tss)
        if rng.random() < 0.25 and hi_ms // 1000 >= 1:
            max_ts = rng.randrange(0, hi_ms // 1000)  # append clock far behind the producers' clocks
        elif hi_ms - 1 > hi_ms // 1000 + 1:
            max_ts = rng.randrange(hi_ms // 1000 + 1, hi_ms)
        if whole_seconds:
            max_ts -= max_ts % 1000
    else:
        attrs_extra = 0
    if rng.random() < 0.07:
        # empty batch: a broker keeps the batch header when compaction or an
        # aborted transaction removed every record (record count 0)
        recs = []
    return {"base_off": base_off, "ple": rng.choice((0, -1, 1, rng.randint(-(2**31), 2**31 - 1))),
            "attrs": (rng.randint(-(2**15), 2**15 - 1) & ~15) | attrs_extra, "lod": lod,
            "base_ts": base_ts, "max_ts": max_ts, "pid": rng.choice((-1, 0, rng.randint(0, 2**63 - 1))),
            "pep": rng.choice((-1, 0, rng.randint(0, 2**15 - 1))), "bseq": rng.choice((-1, 0, rng.randint(0, 2**31 - 1))),
            "records": recs}
