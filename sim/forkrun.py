"""Run a function in a fresh os.fork() child and get its (picklable) result
back through a pipe: pristine process state for anything that asks whether
history matters, also for caches the harness does not know about."""

from __future__ import annotations

import os
import pickle
import select
import signal
import traceback

from . import core


class ChildFailed(core.HarnessError):
    pass


def run(fn, *args, timeout_s: float = 900.0):
    r, w = os.pipe()
    pid = os.fork()
    if pid == 0:
        code = 0
        try:
            os.close(r)
            try:
                payload = ("ok", fn(*args))
            except BaseException as e:  # noqa: BLE001
                payload = ("err", f"{type(e).__name__}: {e}\n{traceback.format_exc()}")
            data = pickle.dumps(payload, protocol=pickle.HIGHEST_PROTOCOL)
            with os.fdopen(w, "wb") as f:
                f.write(data)
        except BaseException:  # noqa: BLE001
            code = 3
        finally:
            os._exit(code)
    os.close(w)
    chunks = []
    try:
        with os.fdopen(r, "rb") as f:
            fd = f.fileno()
            deadline = timeout_s
            while True:
                ready, _, _ = select.select([fd], [], [], deadline)
                if not ready:
                    os.kill(pid, signal.SIGKILL)
                    os.waitpid(pid, 0)
                    raise ChildFailed(f"fork child timed out after {timeout_s}s")
                b = os.read(fd, 1 << 20)
                if not b:
                    break
                chunks.append(b)
    finally:
        try:
            _, status = os.waitpid(pid, 0)
        except ChildProcessError:
            status = 0
    data = b"".join(chunks)
    if not data:
        raise ChildFailed(f"fork child produced no result (status {status})")
    kind, val = pickle.loads(data)
    if kind == "err":
        raise ChildFailed(f"fork child raised: {val}")
    return val
