"""Virtual-time asyncio event loop and an in-memory TCP-like network.

SimLoop      asyncio.BaseEventLoop with a virtual clock: when nothing is ready
             the clock jumps to the next timer; when nothing is scheduled at
             all SimDeadlock is raised (a lost wake-up is an outcome, not a hang)
SimNet       per connection and direction a FIFO byte pipe with PRNG
             segmentation, latency, stalls, back-pressure and resets
SimTransport asyncio.Transport over SimNet; retains the caller's objects
             (zero-copy, as CPython 3.12's selector transport does when the
             socket is busy) and copies them only at delivery time
"""

from __future__ import annotations

import asyncio
import collections
from asyncio import base_events, transports


class SimDeadlock(Exception):
    pass


class _Selector:
    def __init__(self, loop: "SimLoop") -> None:
        self.loop = loop

    def select(self, timeout):
        if timeout is None:
            raise SimDeadlock("nothing ready and nothing scheduled")
        if timeout > 0:
            self.loop._vtime += timeout
            self.loop.clock_jumps += 1
        return []

    def close(self) -> None:
        pass


class SimLoop(base_events.BaseEventLoop):
    def __init__(self) -> None:
        super().__init__()
        self._vtime = 0.0
        self._selector = _Selector(self)
        self._clock_resolution = 1e-9
        self.clock_jumps = 0
        self.iterations = 0

    def time(self) -> float:
        return self._vtime

    def _process_events(self, event_list) -> None:
        pass

    def _write_to_self(self) -> None:
        pass

    def _run_once(self) -> None:
        self.iterations += 1
        super()._run_once()


class Pipe:
    """One direction of a connection."""

    def __init__(self, net: "SimNet", name: str) -> None:
        self.net = net
        self.name = name
        self.pending: collections.deque = collections.deque()  # retained caller objects, not yet cut into segments
        self.pending_bytes = 0
        self.sent = bytearray()  # snapshots at write() time: the reference FIFO log
        self.delivered = bytearray()  # copies taken at delivery time
        self.inflight = 0  # bytes cut into segments and scheduled but not yet delivered
        self.last_t = 0.0
        self.stalled_until = 0.0
        self.pump_scheduled = False
        self.eof_requested = False
        self.eof_delivered = False
        self.dead = False
        self.dest: "SimTransport | None" = None
        self.src: "SimTransport | None" = None
        self.held: collections.deque = collections.deque()  # segments held because the receiver paused reading
        self.writes = 0
        self.dropped_after_reset = 0
        self.mutated_before_delivery = 0


class SimTransport(transports.Transport):
    def __init__(self, loop: SimLoop, net: "SimNet", name: str) -> None:
        super().__init__()
        self._loop = loop
        self.net = net
        self.name = name
        self.out: Pipe | None = None
        self.inp: Pipe | None = None
        self.protocol = None
        self._closing = False
        self._conn_lost = False
        self._reading_paused = False
        self._writing_paused = False
        self.high = 64 * 1024
        self.low = 16 * 1024

    # --- asyncio.Transport API ---------------------------------------------------
    def set_protocol(self, protocol) -> None:
        self.protocol = protocol

    def get_protocol(self):
        return self.protocol

    def is_closing(self) -> bool:
        return self._closing

    def get_extra_info(self, name, default=None):
        return default

    def get_write_buffer_size(self) -> int:
        return self.out.pending_bytes + self.out.inflight

    def get_write_buffer_limits(self):
        return (self.low, self.high)

    def set_write_buffer_limits(self, high=None, low=None) -> None:
        if high is not None:
            self.high = high
        if low is not None:
            self.low = low

    def can_write_eof(self) -> bool:
        return True

    def write_eof(self) -> None:
        self.out.eof_requested = True
        self.net.pump(self.out)

    def pause_reading(self) -> None:
        self._reading_paused = True

    def resume_reading(self) -> None:
        if self._reading_paused:
            self._reading_paused = False
            self.net.release_held(self.inp)

    def is_reading(self) -> bool:
        return not self._reading_paused and not self._closing

    def write(self, data) -> None:
        if not isinstance(data, (bytes, bytearray, memoryview)):
            raise TypeError(f"data argument must be a bytes-like object, not {type(data).__name__!r}")
        self.out.writes += 1
        if self._conn_lost or self._closing or self.out.dead:
            # real transports drop writes after the connection is lost
            self.out.dropped_after_reset += 1
            return
        if not data:
            return
        snap = bytes(data)
        self.out.sent += snap
        # Retention as in CPython 3.12's selector transport: when nothing is queued the
        # transport tries to send at once and keeps a memoryview of the unsent rest (a buffer
        # export: a bytearray cannot be resized while it is queued); when data is already
        # queued it appends the caller's object itself (a plain reference: the caller CAN
        # still clear or refill it).  Alongside goes a view of the snapshot taken now.
        keep = memoryview(data).cast("B") if not self.out.pending_bytes and not self.out.inflight else data
        self.out.pending.append((keep, 0, len(snap), memoryview(snap)))
        self.out.pending_bytes += len(snap)
        self.net.pump(self.out)
        self._maybe_pause()

    def writelines(self, list_of_data) -> None:
        for d in list_of_data:
            self.write(d)

    def close(self) -> None:
        if self._closing:
            return
        self._closing = True
        self.out.eof_requested = True
        self.net.pump(self.out)
        self.net.closed(self)

    def abort(self) -> None:
        self.net.reset(self.out.conn, "abort")

    # --- flow control ---------------------------------------------------------------
    def _maybe_pause(self) -> None:
        if not self._writing_paused and self.get_write_buffer_size() > self.high:
            self._writing_paused = True
            self.net.stats["backpressure_pauses"] += 1
            self.protocol.pause_writing()

    def _maybe_resume(self) -> None:
        if self._writing_paused and self.get_write_buffer_size() <= self.low:
            self._writing_paused = False
            self.protocol.resume_writing()


class Conn:
    def __init__(self, cid: int) -> None:
        self.cid = cid
        self.a: SimTransport | None = None
        self.b: SimTransport | None = None
        self.reset_at: float | None = None
        self.was_reset = False
        self.lost_notified = False


class SimNet:
    """Segmentation / latency / stall / reset decisions all come from ``rng``."""

    def __init__(self, loop: SimLoop, rng, cfg: dict) -> None:
        self.loop = loop
        self.rng = rng
        self.cfg = cfg
        self.conns: list[Conn] = []
        self.stats = collections.Counter()
        self.violations: list[str] = []

    # --- wiring -----------------------------------------------------------------------
    def connect(self, name: str = "") -> tuple:
        loop = self.loop
        conn = Conn(len(self.conns))
        self.conns.append(conn)
        ra, rb = asyncio.StreamReader(loop=loop), asyncio.StreamReader(loop=loop)
        pa = asyncio.StreamReaderProtocol(ra, loop=loop)
        pb = asyncio.StreamReaderProtocol(rb, loop=loop)
        ta, tb = SimTransport(loop, self, f"c{conn.cid}.client"), SimTransport(loop, self, f"c{conn.cid}.broker")
        ab, ba = Pipe(self, f"c{conn.cid}:client->broker"), Pipe(self, f"c{conn.cid}:broker->client")
        for p in (ab, ba):
            p.conn = conn
        ab.src, ab.dest = ta, tb
        ba.src, ba.dest = tb, ta
        ta.out, ta.inp = ab, ba
        tb.out, tb.inp = ba, ab
        hi = self.cfg.get("high_water", 64 * 1024)
        for t in (ta, tb):
            t.set_write_buffer_limits(high=hi, low=hi // 4)
        conn.a, conn.b = ta, tb
        ta.set_protocol(pa)
        tb.set_protocol(pb)
        pa.connection_made(ta)
        pb.connection_made(tb)
        wa = asyncio.StreamWriter(ta, pa, ra, loop)
        wb = asyncio.StreamWriter(tb, pb, rb, loop)
        self.stats["connections"] += 1
        return conn, (ra, wa), (rb, wb)

    # --- sending ------------------------------------------------------------------------
    def pump(self, pipe: Pipe) -> None:
        if pipe.pump_scheduled or pipe.dead:
            return
        pipe.pump_scheduled = True
        # cutting into segments happens a little later, so that several small
        # writes may be coalesced into one segment (Nagle-like)
        self.loop.call_soon(self._cut, pipe)

    def _cut(self, pipe: Pipe) -> None:
        pipe.pump_scheduled = False
        if pipe.dead:
            return
        rng = self.rng
        now = self.loop.time()
        while pipe.pending:
            # one segment: 1 byte .. everything pending (may span several writes)
            total = pipe.pending_bytes
            mode = self.cfg.get("segmentation", "any")
            if mode == "byte":
                n = 1
            elif mode == "small":
                n = rng.randint(1, min(total, 9))
            elif mode == "whole":
                n = total
            else:
                n = rng.randint(1, total)
            parts = []
            need = n
            while need > 0:
                obj, a, b, snap = pipe.pending[0]
                if b - a <= need:
                    pipe.pending.popleft()
                    parts.append((obj, a, b, snap))
                    need -= b - a
                else:
                    # split a retained object: both halves keep referring to the SAME object
                    parts.append((obj, a, a + need, snap[:need]))
                    pipe.pending[0] = (obj, a + need, b, snap[need:])
                    need = 0
            pipe.pending_bytes -= n
            pipe.inflight += n
            lat = self.cfg.get("base_latency", 0.0005) + rng.random() * self.cfg.get("jitter", 0.01)
            t = max(pipe.last_t, now, pipe.stalled_until) + lat
            if rng.random() < self.cfg.get("stall_rate", 0.0):
                stall = rng.random() * self.cfg.get("stall_max", 1.0)
                t += stall
                pipe.stalled_until = t
                self.stats["fault_stall"] += 1
            pipe.last_t = t
            self.stats["segments"] += 1
            if len(parts) > 1:
                self.stats["segments_coalescing_writes"] += 1
            self.loop.call_at(t, self._deliver, pipe, parts, n)
        if pipe.eof_requested and not pipe.eof_delivered and not pipe.pending:
            t = max(pipe.last_t, now) + self.cfg.get("base_latency", 0.0005)
            pipe.last_t = t
            pipe.eof_delivered = True
            self.loop.call_at(t, self._deliver_eof, pipe)

    def _deliver(self, pipe: Pipe, parts, n: int) -> None:
        if pipe.dead:
            return
        chunk = bytearray()
        for obj, a, b, snap in parts:
            with memoryview(obj) as view:
                now_bytes = bytes(view.cast("B")[a:b])  # what the retained object holds NOW
            if now_bytes != snap:
                pipe.mutated_before_delivery += 1
                self.stats["retained_buffer_mutated"] += 1
            chunk += now_bytes
        pipe.inflight -= n
        off = len(pipe.delivered)
        pipe.delivered += chunk
        self.stats["bytes_delivered"] += n
        if bytes(chunk) != bytes(pipe.sent[off:off + len(chunk)]):
            self.violations.append(f"{pipe.name}: delivered bytes are not a prefix of the bytes written")
        dest = pipe.dest
        if dest._reading_paused:
            pipe.held.append(bytes(chunk))
            self.stats["segments_held_by_paused_reader"] += 1
        elif not dest._conn_lost:
            dest.protocol.data_received(bytes(chunk))
        pipe.src._maybe_resume()

    def release_held(self, pipe: Pipe) -> None:
        while pipe.held and not pipe.dest._reading_paused and not pipe.dest._conn_lost:
            pipe.dest.protocol.data_received(pipe.held.popleft())

    def _deliver_eof(self, pipe: Pipe) -> None:
        if pipe.dead or pipe.dest._conn_lost:
            return
        self.stats["eof_delivered"] += 1
        keep_open = pipe.dest.protocol.eof_received()
        if not keep_open:
            pipe.dest.close()

    def closed(self, tr: SimTransport) -> None:
        # the local side learns about its own close once everything is flushed
        def lost():
            if not tr._conn_lost:
                tr._conn_lost = True
                tr.protocol.connection_lost(None)

        self.loop.call_at(max(tr.out.last_t, self.loop.time()) + 1e-6, lost)

    # --- faults ----------------------------------------------------------------------------
    def schedule_reset(self, conn: Conn, at: float) -> None:
        conn.reset_at = at
        self.loop.call_at(at, self.reset, conn, "reset")

    def reset(self, conn: Conn, why: str) -> None:
        if conn.was_reset:
            return
        if conn.a._conn_lost and conn.b._conn_lost:
            return
        conn.was_reset = True
        self.stats["fault_reset"] += 1
        for tr in (conn.a, conn.b):
            p = tr.out
            if p.pending_bytes or p.inflight:
                self.stats["fault_reset_with_bytes_in_flight"] += 1
            p.dead = True
            p.pending.clear()
            p.pending_bytes = 0
            p.inflight = 0
            p.held.clear()
        for tr in (conn.a, conn.b):
            if not tr._conn_lost:
                tr._conn_lost = True
                tr._closing = True
                exc = ConnectionResetError(104, f"sim: connection reset ({why})")
                self.loop.call_soon(tr.protocol.connection_lost, exc)
