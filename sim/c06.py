"""C06 - truncated input is always reported, never decoded to a value.

Simulated system: a peer that started sending one encoded entity and whose
connection is closed after k bytes (crash point); kio's entity_reader(T) on the
receiving end, reading from three kinds of source.
"""

from __future__ import annotations

import dataclasses
import io

from . import core, driver, gen, steps, streams, universe, workload

PROP = "C06"
LEVEL = "fault_enumeration"
KINDS = ("sim", "bytesio", "buffered", "raw", "framed")
FULL_ENUM_LIMIT = 2048
MEM_GIB = 4.0

TIERS = {
    # classes (None = all), instances per class
    "quick": {"classes": 260, "instances": 3},
    "thorough": {"classes": None, "instances": 24},
}


def plan(tier: str, seed: int, scale: float = 1.0) -> list[dict]:
    cfg = TIERS[tier]
    uni = universe.load()
    if cfg["classes"] is None:
        classes = list(uni)
    else:
        classes = universe.stratified_sample(core.rng_for(PROP, seed, "sample"), cfg["classes"])
    inst = max(1, int(round(cfg["instances"] * scale)))
    names = [universe.qualname(c) for c in classes]
    per = 6
    return [{"seed": seed, "classes": names[i:i + per], "instances": inst} for i in range(0, len(names), per)]


def _open_source(kind: str, prefix: bytes, budget: int, chunks, whole: bytes | None = None):
    if kind == "framed":
        # the whole encoding (and more) sits in the buffer object, but read() ends at the cut
        return streams.FramedBytesIO((whole if whole is not None else prefix) + b"\x00" * 64, len(prefix), budget=budget), None
    if kind == "sim":
        return streams.SimSource(prefix, budget=budget), None
    if kind == "bytesio":
        return streams.CountingBytesIO(prefix, budget=budget), None
    raw = streams.SimRawSource(prefix, streams.seq_chunker(chunks or []), budget=budget)
    if kind == "raw":
        raw = streams.SimRawUnbuffered(raw._data, raw._chunker, budget=budget)
        # unbuffered raw stream: read(n) may legally come back short before EOF
        return raw, raw
    return io.BufferedReader(raw, buffer_size=16), raw


def classify(cls, reader, data: bytes, k: int, kind: str, chunks, budget: int, underflow_cls, in_thread: bool = False):
    """Return None when the property held for this case, else an outcome string."""
    src, raw = _open_source(kind, data[:k], budget, chunks, whole=data)
    if in_thread:
        try:
            core.call_in_thread(lambda: None)
        except core.ThreadUnavailable:
            in_thread = False
    try:
        val = core.call_in_thread(reader, src) if in_thread else reader(src)
    except underflow_cls:
        return None
    except streams.SimBudgetExceeded:
        return "loop:stream-call-budget"
    except core.SimWallAlarm:
        return "wall"
    except AttributeError as e:
        if kind == "sim" and src.touched:
            return "probe:nonsequential-api"  # C07's business, not C06's
        return f"raised:{type(e).__name__}"
    except Exception as e:  # noqa: BLE001
        return f"raised:{type(e).__module__}.{type(e).__name__}"
    except BaseException as e:  # noqa: BLE001
        return f"raised-base:{type(e).__name__}"
    return f"returned:{type(val).__name__ if not isinstance(val, cls) else 'entity'}"


def confirm_wall(cls, reader, data, k, kind, chunks, underflow_cls):
    """Level-2 confirmation of a wall-clock alarm: deterministic line budget."""
    budget = steps.step_budget(len(data), universe.n_fields_reachable(cls))

    def call():
        src, _ = _open_source(kind, data[:k], None, chunks, whole=data)
        return reader(src)

    n, _res, exc = steps.count_steps(call, budget)
    if isinstance(exc, steps.StepBudgetExceeded):
        return "loop:line-step-budget"
    return None


def cut_positions(rng, g) -> tuple[list[int], bool]:
    n = len(g.data)
    if n <= FULL_ENUM_LIMIT:
        return list(range(n)), True
    hot = workload.hot_positions(g)
    if len(hot) > 768:
        # very many read boundaries (an array of thousands of primitives): keep the head, the
        # tail and a seeded sample, otherwise one instance would cost minutes
        hot = hot[:64] + hot[-64:] + rng.sample(hot[64:-64], 640)
    pos = set(hot)
    pos.update(rng.randrange(n) for _ in range(256))
    pos.update((0, 1, n - 1, n - 2))
    return sorted(p for p in pos if 0 <= p < n), False


def run_task(task: dict) -> dict:
    from kio.serial import entity_reader
    from kio.serial.errors import BufferUnderflow

    stats = core.Stats()
    log = core.Log()
    violations = []
    vcount: dict = {}
    samples = []
    distinct = set()
    enc_ids: dict = {}
    runs = 0
    for qn in task["classes"]:
        cls = universe.by_name(qn)
        has_blob = bool(universe.features(cls) & {"bytes", "records"}) or any(
            f.metadata.get("kafka_type") in ("bytes", "records") for c in universe.reachable_classes(cls) for f in dataclasses.fields(c))
        for k_inst in range(task["instances"] + (1 if has_blob else 0)):
            core.gc_tick()
            run_seed = core.derive_seed(PROP, task["seed"], qn, k_inst)
            rng = core.random.Random(run_seed)
            runs += 1
            shape = None
            if k_inst == task["instances"]:
                # classes that can carry a blob get one extra instance with a >= 64 KiB value
                shape = {"name": "huge", "fan": 1, "str": "huge", "null_rate": 0.05, "nondefault_rate": 0.7, "budget": 20}
                if rng.random() < 0.17:
                    # now and then a value above 1 MiB (a full fetch / produce record set)
                    shape["huge_sizes"] = [1048577, 1048576 + 4096, 1572864, 2097152 + 7]
                    stats.inc("instances_with_value_above_1MiB")
            g = workload.make_golden(rng, cls, shape=shape, stats=stats)
            if g is None:
                log.add("discard", qn, k_inst)
                continue
            reader = entity_reader(cls)
            budget = workload.read_budget(len(g.data), cls)
            cuts, exhaustive = cut_positions(rng, g)
            stats.inc("instances")
            stats.inc("instances_all_cuts" if exhaustive else "instances_sampled_cuts")
            stats.inc("bytes_golden", len(g.data))
            stats.inc(f"shape_{g.shape['name']}")
            varint_offsets = {off for off, n in g.reads if n == 1}
            boundaries = {off for off, n in g.reads}
            mode = rng.choice(streams.CHUNK_MODES if len(g.data) <= 16384 else ("all", "any"))
            bad_here = 0
            with core.wall_backstop(120):
                for k in cuts:
                    if bad_here >= 12:
                        # this instance has shown the violation often enough; more cuts only cost time
                        # (a looping reader burns its whole call budget on every one of them)
                        stats.inc("instances_cut_short_after_12_violations")
                        break
                    for kind in KINDS:
                        chunks = None
                        if kind == "buffered":
                            ch = streams.rng_chunker(rng, mode)
                            chunks = []
                            left = k
                            while left > 0:
                                c = ch(left)
                                chunks.append(c)
                                left -= c
                        elif kind == "raw":
                            chunks = streams.short_read_chunks(rng)
                        in_thread = rng.random() < 0.04
                        out = classify(cls, reader, g.data, k, kind, chunks, budget, BufferUnderflow, in_thread)
                        stats.inc("cases")
                        if in_thread:
                            stats.inc("cases_decoded_in_a_fresh_thread")
                        stats.inc(f"fault_eof_{kind}")
                        if k > 0:
                            distinct.add((enc_ids.setdefault(g.data, len(enc_ids)), k, kind))
                        if out == "wall":
                            out = confirm_wall(cls, reader, g.data, k, kind, chunks, BufferUnderflow)
                            stats.inc("wall_alarms")
                            if out is None:
                                stats.inc("wall_alarms_unconfirmed")
                        if out is None:
                            continue
                        if out.startswith("probe:"):
                            stats.inc(out)
                            continue
                        bad_here += 1
                        stats.inc("violating_cases")
                        log.add("viol", qn, k_inst, k, kind, out)
                        vcount[(out, kind)] = vcount.get((out, kind), 0) + 1
                        if vcount[(out, kind)] <= 2:
                            violations.append({
                                "signature": out,
                                "run_seed": run_seed,
                                "scenario": {"class": qn, "instance": g.tree, "cut": k, "kind": kind, "chunks": chunks, "thread": in_thread},
                            })
                    if k > 0 and (k - 1) in varint_offsets and g.data[k - 1] & 0x80:
                        stats.inc("probe_cut_after_continuation_byte")
                    elif k in boundaries:
                        stats.inc("probe_cut_on_field_boundary")
                    else:
                        stats.inc("probe_cut_inside_field")
            log.add("run", qn, k_inst, len(g.data), len(cuts), exhaustive, bad_here, mode)
            if len(samples) < 2:
                samples.append({"class": qn, "encoding_len": len(g.data), "cuts": len(cuts), "all_cuts": exhaustive,
                                "source_kinds": list(KINDS), "buffered_chunk_mode": mode, "shape": g.shape["name"],
                                "instance": _clip(g.tree)})
    return {"stats": dict(stats), "digest": log.digest(), "violations": violations, "samples": samples,
            "distinct": len(distinct), "runs": runs}


def _clip(tree, limit: int = 600):
    s = core.canon(tree)
    return tree if len(s) <= limit else {"truncated_repr": s[:limit] + "..."}


# ---- replay / shrink ------------------------------------------------------


def evaluate(scenario: dict):
    from kio.serial import entity_reader
    from kio.serial.errors import BufferUnderflow

    cls = universe.by_name(scenario["class"])
    inst = gen.from_tree(scenario["instance"])
    data, _ = workload.encode_clean(cls, inst)
    k = scenario["cut"]
    if not (0 <= k < len(data)):
        return None
    budget = workload.read_budget(len(data), cls)
    with core.wall_backstop(60):
        out = classify(cls, entity_reader(cls), data, k, scenario["kind"], scenario.get("chunks"), budget, BufferUnderflow,
                       bool(scenario.get("thread")))
    if out == "wall":
        out = confirm_wall(cls, entity_reader(cls), data, k, scenario["kind"], scenario.get("chunks"), BufferUnderflow)
    if out is not None and out.startswith("probe:"):
        return None
    return out


def candidates(scenario: dict):
    from kio.serial import entity_reader  # noqa: F401

    cls = universe.by_name(scenario["class"])
    old_len = len(workload.encode_clean(cls, gen.from_tree(scenario["instance"]))[0])
    if scenario.get("thread"):
        yield {**scenario, "thread": False}
    for kind in ("sim", "bytesio"):
        if scenario["kind"] != kind and KINDS.index(kind) < KINDS.index(scenario["kind"]):
            yield {**scenario, "kind": kind, "chunks": None}
    for t in gen.tree_candidates(scenario["instance"]):
        try:
            new_len = len(workload.encode_clean(cls, gen.from_tree(t))[0])
        except Exception:  # noqa: BLE001
            continue
        if new_len == 0:
            continue
        # keep the cut at the same distance from the end, and also try the same offset
        k_end = scenario["cut"] - old_len + new_len
        for k in sorted({k_end, min(scenario["cut"], new_len - 1)}):
            if 0 <= k < new_len:
                yield {**scenario, "instance": t, "cut": k}
    if scenario["cut"] > 0:
        yield {**scenario, "cut": 0}
        yield {**scenario, "cut": scenario["cut"] // 2}
        yield {**scenario, "cut": scenario["cut"] - 1}


# ---- evidence --------------------------------------------------------------


def finalize(stats, tier, runs, distinct, samples, wall):
    cases = stats.get("cases", 0)
    coverage = {
        "evaluations": cases,
        "distinct_nontrivial": distinct,
        "rule": "one evaluation = one (class, generated instance, cut position k, source kind) decode of the k-byte prefix; "
                "every k in 0..len-1 when len <= 2048, else all read-boundary-adjacent offsets + 256 seeded offsets; "
                "distinct = distinct (encoding, k, kind) triples counted per task; non-trivial = k > 0 (some bytes were delivered before the close)",
        "samples": samples,
        "exhaustive": False,
        "classes_total": len(universe.load()),
        "instances": stats.get("instances", 0),
        "instances_with_every_cut": stats.get("instances_all_cuts", 0),
        "instances_with_sampled_cuts": stats.get("instances_sampled_cuts", 0),
        "discarded_by_prepass": stats.get("discarded_by_prepass", 0),
        "golden_bytes": stats.get("bytes_golden", 0),
        "faults_fired": {k: v for k, v in sorted(stats.items()) if k.startswith("fault_")},
        "probes": {k: v for k, v in sorted(stats.items()) if k.startswith("probe")},
        "shapes": {k: v for k, v in sorted(stats.items()) if k.startswith("shape_")},
        "wall_alarms": stats.get("wall_alarms", 0),
        "simulated_time_s": 0,
        "simulated_time_note": "no clock in this check: kio's decode path has no timers; time is measured in stream calls and line steps",
        "seeds_per_hour": int(runs / wall * 3600) if wall else 0,
        "interleavings": "n/a (single caller); distinct fault points counted in distinct_nontrivial",
    }
    assumptions = [
        "the source honours the buffered binary stream contract: read(n) returns exactly n bytes unless EOF cuts it short",
        "instances are produced by the harness generator and must survive a clean encode/decode pre-pass (round-trip identity is C01)",
        "wall-clock is never a verdict; loops are detected by stream-call budget 4*(len+fields)+64 and confirmed by a line-step budget",
    ]
    problems = []
    n_ok, n_bad = stats.get("instances", 0), stats.get("discarded_by_prepass", 0)
    if n_bad > n_ok:
        problems.append(f"FATAL: {n_bad} of {n_ok + n_bad} generated instances did not survive the clean encode/decode pre-pass "
                        "(round-trip identity, property C01, is broken on this tree; this check cannot judge it)")
    elif n_bad:
        problems.append(f"{n_bad} generated instances discarded by the clean pre-pass")
    for p in ("probe_cut_on_field_boundary", "probe_cut_after_continuation_byte", "probe_cut_inside_field"):
        if not stats.get(p):
            problems.append(f"probe {p} never fired")
    return coverage, assumptions, problems


if __name__ == "__main__":
    raise SystemExit(driver.main(__import__("sim.c06", fromlist=["x"])))
