"""Generic check driver: plan -> run tasks in workers -> merge in task order ->
shrink + replay files -> known findings -> evidence -> exit code."""

from __future__ import annotations

import argparse
import importlib
import json
import os
import sys

from . import core


def _shrink_task(task: dict) -> dict:
    mod = importlib.import_module(task["module"])
    scenario = task["scenario"]
    sig = task["signature"]
    evals = 0
    cap = getattr(mod, "SHRINK_CAP", 1500)
    deadline = core.time.monotonic() + getattr(mod, "SHRINK_WALL_S", 120)
    improved = True
    same = getattr(mod, "same_signature", lambda a, b: a == b)
    while improved and evals < cap and core.time.monotonic() < deadline:
        improved = False
        for cand in mod.candidates(scenario):
            evals += 1
            if evals >= cap or core.time.monotonic() >= deadline:
                break
            try:
                got = mod.evaluate(cand)
            except Exception:  # noqa: BLE001 - a candidate that breaks the harness is not smaller
                got = None
            if got is not None and same(got, sig):
                scenario = cand
                improved = True
                break
    final = mod.evaluate(scenario)
    return {"scenario": scenario, "signature": final, "evals": evals, "site": getattr(mod, "LAST_SITE", None)}


def _mem(module: str) -> float:
    return getattr(importlib.import_module(module), "MEM_GIB", 8.0)


def shrink(module: str, scenario: dict, signature: str) -> tuple[dict, str, int]:
    try:
        (r,) = core.run_tasks("sim.driver:_shrink_task",
                              [{"module": module, "scenario": scenario, "signature": signature}, ],
                              workers=1, wall_s=600, force_pool=True, mem_gib=_mem(module))[:1]
    except core.HarnessError:
        return scenario, signature, 0
    if r["signature"] is None:
        return scenario, signature, r["evals"]
    if r["signature"].startswith("finding:") and not signature.startswith("finding:"):
        # evaluated alone in a fresh process the scenario only shows a listed finding: the violation
        # needed the worker's earlier history; report what was observed, not the finding
        return scenario, signature, r["evals"]
    return r["scenario"], r["signature"], r["evals"]


def _eval_task(task: dict):
    mod = importlib.import_module(task["module"])
    sig = mod.evaluate(task["scenario"])
    return {"signature": sig, "site": getattr(mod, "LAST_SITE", None) if sig is not None else None}


def fresh_evaluate(module: str, scenario: dict) -> dict:
    (r,) = core.run_tasks("sim.driver:_eval_task", [{"module": module, "scenario": scenario}], workers=1, wall_s=600,
                          force_pool=True, mem_gib=_mem(module))[:1]
    return r


def main(mod, argv=None) -> int:
    ap = argparse.ArgumentParser(prog=f"check {mod.PROP}")
    ap.add_argument("--tier", default=os.environ.get("VERIF_TIER") or "quick", choices=("quick", "thorough"))
    ap.add_argument("--seed", type=int, default=None)
    ap.add_argument("--replay", default=None)
    ap.add_argument("--scale", type=float, default=float(os.environ.get("KIO_VERIF_SCALE", "1")))
    ap.add_argument("--no-evidence", action="store_true")
    ap.add_argument("--digest-only", action="store_true", help="print the run digest and exit (self-test)")
    ap.add_argument("--max-tasks", type=int, default=None)
    args = ap.parse_args(argv)
    timer = core.Timer()
    import faulthandler
    import signal

    faulthandler.register(signal.SIGUSR1, all_threads=True)
    if os.environ.get("KIO_VERIF_SUBPASS"):
        _die_with_parent()
    try:
        core.import_kio()
        if args.replay:
            return _replay(mod, args.replay)
        return _run(mod, args, timer)
    except core.HarnessError as e:
        print(f"HARNESS-ERROR property={mod.PROP} {e}", flush=True)
        return core.EXIT_HARNESS
    except Exception as e:  # noqa: BLE001
        import traceback

        traceback.print_exc()
        print(f"HARNESS-ERROR property={mod.PROP} {type(e).__name__}: {e}", flush=True)
        return core.EXIT_HARNESS


def _replay(mod, path: str) -> int:
    doc = core.load_replay(path)
    want_opt = int((doc["scenario"].get("_env") or {}).get("optimize", 0))
    if want_opt and not sys.flags.optimize:
        # recorded by the `python -O` pass: replay under the same interpreter configuration
        sys.stdout.flush()
        os.execv(sys.executable, [sys.executable, "-O", "-m", "sim", mod.PROP, "--replay", path])
    res = fresh_evaluate(mod.__name__, doc["scenario"])
    got = res["signature"]
    want = doc.get("signature")
    print(f"REPLAY property={mod.PROP} recorded={want!r} observed={got!r}")
    if got is None:
        print("REPLAY no violation observed on this tree")
        return core.EXIT_OK
    known = _match_known(mod, {"signature": got, "scenario": doc["scenario"], "site": res.get("site")})
    if known is not None:
        print(f"KNOWN-FINDING: property={mod.PROP} {known['what']}")
        return core.EXIT_OK
    print(f"VIOLATION property={mod.PROP} replay={path}")
    return core.EXIT_VIOLATION


def _match_known(mod, violation: dict):
    matcher = getattr(mod, "matches_finding", None)
    if matcher is None:
        return None
    for entry in core.load_known_findings(mod.PROP):
        if entry.get("status") != "open":
            continue
        if matcher(violation, entry):
            return entry
    return None


def _run(mod, args, timer) -> int:
    seed = core.base_seed(args.seed)
    tier = args.tier
    print(f"check {mod.PROP} tier={tier} VERIF_SEED={seed} src={core.SRC} workers={core.n_workers()}", flush=True)
    tasks = mod.plan(tier, seed, args.scale)
    if args.max_tasks:
        tasks = tasks[: args.max_tasks]
    opt_pass = _start_opt_pass(mod, args, seed, tier)
    stats = core.Stats()
    digests = []
    violations: list[dict] = []
    findings: dict[str, dict] = {}
    samples: list = []
    distinct = 0
    runs = 0
    results = core.run_tasks(f"{mod.__name__}:run_task", tasks, mem_gib=getattr(mod, "MEM_GIB", 8.0),
                             wall_s=getattr(mod, "WALL_S", {"quick": 900, "thorough": 6 * 3600})[tier], force_pool=True)
    for r in results:
        stats.merge(r.get("stats", {}))
        digests.append(r.get("digest", ""))
        violations.extend(r.get("violations", []))
        for f in r.get("findings", []):
            slot = findings.setdefault(f["finding"], {"count": 0, "example": f})
            slot["count"] += f.get("count", 1)
        if len(samples) < 6:
            samples.extend(r.get("samples", [])[: 6 - len(samples)])
        distinct += r.get("distinct", 0)
        runs += r.get("runs", 0)
    digest = core.combine_digests(digests)
    print(f"DIGEST {digest}", flush=True)
    if args.digest_only:
        print(f"runs={runs} violations={len(violations)}")
        return core.EXIT_OK

    # known findings that the check module itself recognised by defect model
    known_entries = {e["id"]: e for e in core.load_known_findings(mod.PROP) if e.get("status") == "open"}
    exit_code = core.EXIT_OK
    reported = 0
    for fid in sorted(findings):
        entry = known_entries.get(fid)
        if entry is None:
            # the module recognised a defect model that is not (or no longer) listed: a violation
            ex = findings[fid]["example"]
            violations.append({"signature": f"finding:{fid}", "run_seed": ex.get("run_seed", 0),
                               "scenario": ex.get("scenario", {})})
        else:
            print(f"KNOWN-FINDING: property={mod.PROP} {entry['what']} (reproduced {findings[fid]['count']}x this run)")

    by_sig: dict[str, list[dict]] = {}
    for v in violations:
        by_sig.setdefault(_sig_class(v), []).append(v)
    n_viol = 0
    known_hits: dict[str, int] = {}
    for sig in sorted(by_sig):
        v = by_sig[sig][0]
        entry = _match_known(mod, v)
        if entry is not None:
            known_hits[entry["id"]] = known_hits.get(entry["id"], 0) + len(by_sig[sig])
            continue
        n_viol += len(by_sig[sig])
        if reported >= getattr(mod, "MAX_REPORTS", 8):
            continue
        reported += 1
        scen, final_sig, evals = shrink(mod.__name__, v["scenario"], v["signature"])
        path = core.write_replay(mod.PROP, v["run_seed"], scen, final_sig,
                                 {"original_signature": v["signature"], "shrink_evaluations": evals, "site": v.get("site"),
                                  "occurrences_this_run": len(by_sig[sig]), "verif_seed": seed, "tier": tier})
        print(f"  violation: {final_sig}  (x{len(by_sig[sig])}, shrunk in {evals} evaluations)")
        print(f"VIOLATION property={mod.PROP} replay={path}", flush=True)
        exit_code = core.EXIT_VIOLATION
    for fid in sorted(known_hits):
        print(f"KNOWN-FINDING: property={mod.PROP} {known_entries[fid]['what']} (reproduced {known_hits[fid]}x this run)")

    opt_summary = None
    if opt_pass is not None:
        opt_code, opt_summary = _finish_opt_pass(mod, opt_pass)
        if opt_code == core.EXIT_VIOLATION:
            exit_code = core.EXIT_VIOLATION
            n_viol += int((opt_summary or {}).get("violations", 1)) or 1
        elif opt_code != core.EXIT_OK and exit_code == core.EXIT_OK:
            print(f"HARNESS-ERROR property={mod.PROP} the `python -O` pass ended with exit code {opt_code}")
            exit_code = core.EXIT_HARNESS
    wall = timer.elapsed()
    coverage, assumptions, problems = mod.finalize(stats, tier, runs, distinct, samples, wall)
    coverage["environment_swarm"] = {k: v for k, v in sorted(stats.items()) if k.startswith("env_")}
    coverage["interpreter_configurations"] = {
        "default": {"runs": runs},
        "python -O (asserts and __debug__ blocks stripped)": opt_summary or "not run (sub-pass, digest-only or --max-tasks)",
    }
    coverage.setdefault("run_digest", digest)
    coverage.setdefault("runs", runs)
    coverage.setdefault("runs_per_hour", int(runs / wall * 3600) if wall > 0 else 0)
    coverage.setdefault("components", core.REAL_STUB)
    coverage.setdefault("known_findings_reproduced", {k: v["count"] for k, v in findings.items()} | known_hits)
    if not args.no_evidence:
        core.write_evidence(mod.PROP, tier, seed, mod.LEVEL, coverage, assumptions, wall, n_viol)
    for p in problems:
        print(f"HARNESS-WARNING property={mod.PROP} {p}")
    if os.environ.get("KIO_VERIF_SUBPASS"):
        print("SUBPASS-SUMMARY " + json.dumps({"runs": runs, "evaluations": coverage.get("evaluations"), "violations": n_viol,
                                               "wall_s": round(wall, 1), "seed": seed, "scale": args.scale}), flush=True)
    print(f"done {mod.PROP}: runs={runs} evaluations={coverage.get('evaluations')} distinct_nontrivial={coverage.get('distinct_nontrivial')} "
          f"violations={n_viol} wall={wall:.1f}s", flush=True)
    if exit_code == core.EXIT_OK and any(p.startswith("FATAL") for p in problems):
        # the check could not evaluate the property on this tree: never report that as "held"
        print(f"HARNESS-ERROR property={mod.PROP} the workload could not be evaluated; see warnings above")
        return core.EXIT_HARNESS
    return exit_code


OPT_SCALE = {"quick": 0.25, "thorough": 0.15}


def _die_with_parent() -> None:
    """The sub-pass must not outlive a parent that was killed (e.g. by `timeout`)."""
    import threading

    parent = os.getppid()

    def watch():
        while True:
            core.time.sleep(2.0)
            if os.getppid() != parent:
                os.killpg(os.getpgid(0), 9) if os.getpgid(0) == os.getpid() else os._exit(3)

    threading.Thread(target=watch, daemon=True, name="parent-watch").start()


def _start_opt_pass(mod, args, seed: int, tier: str):
    """A slice of the same check under `python -O` (asserts and `if __debug__:` blocks are stripped
    from kio as well): an interpreter configuration production may use and the test-suite never does.
    Runs concurrently in its own interpreter with a few workers; handles its own shrinking and
    replay files (the recorded scenario carries _env.optimize=1, so --replay re-executes under -O)."""
    import subprocess

    if (os.environ.get("KIO_VERIF_SUBPASS") or os.environ.get("KIO_VERIF_NO_OPT_PASS") or args.digest_only or args.max_tasks
            or sys.flags.optimize):
        return None
    env = {**os.environ, "KIO_VERIF_SUBPASS": "optimize", "KIO_VERIF_WORKERS": str(max(2, core.n_workers() // 4))}
    cmd = [sys.executable, "-O", "-m", "sim", mod.PROP, "--tier", tier, "--seed", str(seed ^ 0x4F50), "--scale",
           str(args.scale * OPT_SCALE[tier]), "--no-evidence"]
    return subprocess.Popen(cmd, env=env, cwd=core.VERIF, stdout=subprocess.PIPE, stderr=subprocess.STDOUT, text=True,
                            start_new_session=True)


def _finish_opt_pass(mod, proc) -> tuple[int, dict | None]:
    out, _ = proc.communicate()
    summary = None
    for ln in out.splitlines():
        if ln.startswith("SUBPASS-SUMMARY "):
            summary = json.loads(ln[len("SUBPASS-SUMMARY "):])
        elif ln.startswith("VIOLATION ") or ln.startswith("  violation:"):
            print(ln + ("  [python -O pass]" if ln.startswith("  violation:") else ""), flush=True)
        elif ln.startswith("HARNESS-ERROR") or ln.startswith("HARNESS-WARNING"):
            print(ln + "  [python -O pass]", flush=True)
    code = proc.returncode
    if code not in (core.EXIT_OK, core.EXIT_VIOLATION):
        print("  [python -O pass] output tail: " + out[-600:].replace("\n", " | "), flush=True)
    return code, summary


def _sig_class(v: dict) -> str:
    site = v.get("site") or {}
    return v["signature"] + (f" @ {site.get('file')}:{site.get('func')}" if site else "")
