"""C07 - messages are self-delimiting on a sequential stream.

Reference model: a FIFO log per stream direction.  Cross-invariant: what was
received is always a prefix of what was sent, element-wise equal, and byte
positions at message boundaries coincide.

  L1  sequential sync streams: histories of messages x 5 sink kinds x 3 source kinds
  L2  asyncio client <-> stub broker over a simulated network (virtual time)
  L3  blocking client <-> broker threads over BufferedReader/Writer pipes
      under the baton scheduler
"""

from __future__ import annotations

import asyncio
import collections
import dataclasses
import io

from . import core, driver, gen, streams, universe
from .loop import SimDeadlock, SimLoop, SimNet

PROP = "C07"
LEVEL = "exploration"
MEM_GIB = 4.0
SHRINK_CAP = 600
SHRINK_WALL_S = 90

TIERS = {
    "quick": {"L1": 8000, "L2": 5000, "L3": 4000},
    "thorough": {"L1": 700000, "L2": 400000, "L3": 120000},
}
SINK_KINDS = ("bytesio", "simsink-int", "simsink-none", "bufferedwriter", "streamwriter")
SOURCE_KINDS = ("bytesio", "simsource", "bufferedreader")


def plan(tier: str, seed: int, scale: float = 1.0) -> list[dict]:
    cfg = TIERS[tier]
    tasks = []
    for layer in ("L1", "L2", "L3"):
        n = max(8, int(cfg[layer] * scale))
        per = {"L1": 40, "L2": 20, "L3": 10}[layer]
        for i in range(0, n, per):
            tasks.append({"seed": seed, "layer": layer, "first": i, "count": min(per, n - i)})
    return tasks


# ---- message universe ------------------------------------------------------------------


_tables = None


def tables():
    """Lookup tables built from the universe's own class attributes (not from
    kio.index and not from an independent header rule)."""
    global _tables
    if _tables is None:
        reqs, resps, others = {}, {}, []
        for c in universe.load():
            k = universe.kind(c)
            if k == "request":
                reqs[(int(c.__api_key__), int(c.__version__))] = c
            elif k == "response":
                resps[(int(c.__api_key__), int(c.__version__))] = c
            else:
                others.append(c)
        pairs = sorted(k for k in reqs if k in resps)
        _tables = {"req": reqs, "resp": resps, "pairs": pairs, "others": others}
    return _tables


def _alone(cls, inst) -> bytes:
    from kio.serial import entity_writer

    b = io.BytesIO()
    entity_writer(cls)(b, inst)
    return b.getvalue()


def _small_shape(rng):
    s = gen.draw_shape(rng)
    while s["name"] in ("big", "wide", "huge"):
        s = gen.draw_shape(rng)
    return s


def _net_safe_shape(rng):
    s = gen.draw_shape(rng)
    while s["name"] not in ("tiny", "small", "medium", "boundary", "nully", "taggy"):
        s = gen.draw_shape(rng)
    return s


def gen_header(rng, hcls, payload_cls, correlation_id=None):
    h = gen.gen_instance(rng, hcls, _small_shape(rng))
    names = {f.name for f in dataclasses.fields(hcls)}
    repl = {}
    if "request_api_key" in names:
        repl["request_api_key"] = payload_cls.__api_key__
        repl["request_api_version"] = payload_cls.__version__
    if correlation_id is not None and "correlation_id" in names:
        repl["correlation_id"] = correlation_id
    return dataclasses.replace(h, **repl) if repl else h


_HUGE_SHAPE = {"name": "huge", "fan": 1, "str": "huge", "null_rate": 0.05, "nondefault_rate": 0.7, "budget": 20}
_BIG_SHAPE = {"name": "big", "fan": 2, "str": "big", "null_rate": 0.1, "nondefault_rate": 0.7, "budget": 30}


def gen_message(rng, big_ok: bool = True) -> dict:
    """(header, payload) of a request or response class, or a bare entity;
    optionally with a size prefix as in the docs."""
    t = tables()
    r = rng.random()
    if r < 0.75:
        key = rng.choice(t["pairs"])
        cls = (t["req"] if rng.random() < 0.5 else t["resp"])[key]
        hcls = cls.__header_schema__
        # now and then a payload with one very large chunk (>= 16 KiB string/bytes/records)
        r2 = rng.random()
        shape = _small_shape(rng)
        if big_ok and r2 < 0.08:
            shape = _BIG_SHAPE
        elif big_ok and r2 < 0.10:
            shape = _HUGE_SHAPE  # a blob of 64 KiB or more (strings in it stay small)
        payload = gen.gen_instance(rng, cls, shape)
        header = gen_header(rng, hcls, cls)
        return {"entities": [[universe.qualname(hcls), gen.to_tree(header)], [universe.qualname(cls), gen.to_tree(payload)]],
                "size_prefix": rng.random() < 0.5}
    cls = rng.choice(t["others"]) if r < 0.9 else rng.choice(universe.load())
    inst = gen.gen_instance(rng, cls, _small_shape(rng))
    return {"entities": [[universe.qualname(cls), gen.to_tree(inst)]], "size_prefix": rng.random() < 0.2}


class Msg:
    __slots__ = ("ents", "size_prefix", "gold", "frame")

    def __init__(self, m: dict):
        self.ents = [(universe.by_name(q), gen.from_tree(t)) for q, t in m["entities"]]
        self.size_prefix = m["size_prefix"]
        self.gold = [_alone(c, x) for c, x in self.ents]
        body = b"".join(self.gold)
        self.frame = (len(body).to_bytes(4, "big") if self.size_prefix else b"") + body


def _write_msg(buffer, msg: Msg) -> None:
    from kio.serial import entity_writer
    from kio.serial.writers import write_int32
    from kio.static.primitive import i32

    if msg.size_prefix:
        write_int32(buffer, i32(len(msg.frame) - 4))
    for cls, inst in msg.ents:
        entity_writer(cls)(buffer, inst)


# ---- L1 ---------------------------------------------------------------------------------


def _encode_into(kind: str, msgs: list[Msg], g0: bytes, g1: bytes, rng_cfg: dict) -> tuple[bytes | None, str | None]:
    """Encode the whole history into one sink kind.  -> (bytes that reached the sink, violation)."""
    if kind == "bytesio":
        b = io.BytesIO()
        b.write(g0)
        for m in msgs:
            _write_msg(b, m)
        b.write(g1)
        return b.getvalue(), None
    if kind in ("simsink-int", "simsink-none"):
        s = streams.SimSink(returns_none=(kind == "simsink-none"))
        s.write(g0)
        n0 = s.ncalls
        for m in msgs:
            try:
                _write_msg(s, m)
            except AttributeError as e:
                return None, f"sink-api:{'/'.join(s.touched) or e}"
        s.write(g1)
        # (an attribute merely probed with hasattr/getattr-default is not a use;
        # a use raises AttributeError above)
        if s.bad_args:
            return None, f"sink-non-bytes-argument:{s.bad_args[0]}"
        if streams.sink_mutated(s):
            return None, "sink-argument-mutated-after-write"
        return streams.sink_data(s), None
    if kind == "bufferedwriter":
        raw = streams.SimRawSink()
        b = io.BufferedWriter(raw, buffer_size=rng_cfg["bufsize"])
        b.write(g0)
        for m in msgs:
            _write_msg(b, m)
        b.write(g1)
        b.flush()
        return raw.data(), None
    if kind == "streamwriter":
        loop = SimLoop()
        try:
            net = SimNet(loop, core.random.Random(rng_cfg["net_seed"]), {"segmentation": rng_cfg["segmentation"], "jitter": 0.01,
                                                                         "high_water": rng_cfg["high_water"]})
            conn, (ra, wa), (rb, wb) = net.connect()

            async def main():
                wa.write(g0)
                for i, m in enumerate(msgs):
                    _write_msg(wa, m)
                    if i % 2 == 0:
                        await wa.drain()
                wa.write(g1)
                await wa.drain()
                wa.close()
                data = await rb.read(-1)
                wb.close()
                return data

            try:
                data = loop.run_until_complete(loop.create_task(main(), name="l1-streamwriter"))
            except SimDeadlock:
                return None, "deadlock"
            if net.violations:
                return None, "transport:" + net.violations[0].split(": ", 1)[-1]
            if net.stats["retained_buffer_mutated"]:
                return None, "sink-argument-mutated-after-write"
            return data, None
        finally:
            loop.close()
    raise ValueError(kind)


def _decode_from(kind: str, data: bytes, msgs: list[Msg], g0: int, g1: bytes, chunks) -> str | None:
    from kio.serial import entity_reader
    from kio.serial.readers import read_int32

    if kind == "bytesio":
        src = io.BytesIO(data)
        src.seek(g0)
        pos = lambda: src.tell()  # noqa: E731
    elif kind == "simsource":
        src = streams.SimSource(data, pos=g0)
        pos = lambda: src.pos  # noqa: E731
    else:
        raw = streams.SimRawSource(data[g0:], streams.seq_chunker(chunks or []))
        src = io.BufferedReader(raw, buffer_size=32)
        pos = None
    at = g0
    for mi, m in enumerate(msgs):
        try:
            if m.size_prefix:
                n = read_int32(src)
                at += 4
                if n != len(m.frame) - 4:
                    return "size-prefix-differs"
            for (cls, inst), gold in zip(m.ents, m.gold):
                val = entity_reader(cls)(src)
                at += len(gold)
                if type(val) is not cls or val != inst:
                    return "decoded-value-differs"
                if pos is not None and pos() != at:
                    return "position-after-entity-differs"
        except AttributeError as e:
            if kind == "simsource" and src.touched:
                return f"source-api:{'/'.join(sorted(set(src.touched)))}"
            return f"decode-raised:{type(e).__name__}"
        except Exception as e:  # noqa: BLE001
            return f"decode-raised:{type(e).__name__}"
    if kind == "simsource":
        if src.readall or src.bad_sizes:
            return "source-api:read-without-exact-size"
    rest = src.read()
    if rest != g1:
        return "trailing-bytes-consumed-or-altered"
    return None


def l1_case(sc: dict) -> str | None:
    try:
        msgs = [Msg(m) for m in sc["messages"]]
    except Exception as e:  # noqa: BLE001 - a generated, valid entity that does not encode alone into a BytesIO
        return f"L1:encode[alone]:raised:{type(e).__name__}"
    g0, g1 = bytes.fromhex(sc["g0"]), bytes.fromhex(sc["g1"])
    expect = g0 + b"".join(m.frame for m in msgs) + g1
    outs = {}
    for kind in SINK_KINDS:
        try:
            data, viol = _encode_into(kind, msgs, g0, g1, sc["cfg"])
        except Exception as e:  # noqa: BLE001
            return f"L1:encode[{kind}]:raised:{type(e).__name__}"
        if viol:
            return f"L1:encode[{kind}]:{viol}"
        if data != expect:
            return f"L1:encode[{kind}]:bytes-differ-from-entities-encoded-alone"
        outs[kind] = data
    for kind in SOURCE_KINDS:
        viol = _decode_from(kind, expect, msgs, len(g0), g1, sc["cfg"].get("chunks"))
        if viol:
            return f"L1:decode[{kind}]:{viol}"
    # fault variant: the sink raises at write index i
    f = sc.get("fault")
    if f is not None:
        exc = streams.make_injected(f["kind"], f["index"])
        s = streams.SimSink(fail_at=f["index"], fail_exc=exc)
        got = None
        try:
            for m in msgs:
                _write_msg(s, m)
        except BaseException as e:  # noqa: BLE001
            got = e
        body = expect[len(g0):len(expect) - len(g1)]
        held = streams.sink_data(s)
        if s.ncalls > f["index"]:
            # the caller must learn that the message did not make it: the call may re-raise the
            # stream's error or wrap it, but must not return normally or fail with something unrelated
            if got is None:
                return "L1:fault:injected-error-swallowed"
            if not streams.same_or_chained(got, exc):
                return f"L1:fault:injected-error-replaced-by-unrelated:{type(got).__name__}"
            if not body.startswith(held):
                return "L1:fault:torn-message-is-not-a-prefix"
        del got
    # history variant: an encode of an entity with one invalid field value is attempted (the
    # writer rejects it part-way) between the messages of the history
    p = sc.get("poison")
    if p is not None:
        from kio.serial import entity_writer

        from . import c19

        q, tree = sc["messages"][p["msg"] % len(sc["messages"])]["entities"][-1]
        for seed in p["seeds"]:
            bad = c19._poison(tree, seed)
            if bad is None:
                continue
            try:
                entity_writer(universe.by_name(q))(streams.SimSink(retain=False), c19._from_tree_poison(bad))
            except Exception:  # noqa: BLE001 - expected: the value is not encodable
                pass
    if f is not None or p is not None:
        # whatever failed before, the same history written again is the same bytes and reads back
        for kind in ("bytesio", "simsink-int"):
            try:
                data, viol = _encode_into(kind, msgs, g0, g1, sc["cfg"])
            except Exception as e:  # noqa: BLE001
                return f"L1:after-failure:encode[{kind}]:raised:{type(e).__name__}"
            if viol:
                return f"L1:after-failure:encode[{kind}]:{viol}"
            if data != expect:
                return f"L1:after-failure:encode[{kind}]:bytes-differ-from-entities-encoded-alone"
        viol = _decode_from("simsource", expect, msgs, len(g0), g1, None)
        if viol:
            return f"L1:after-failure:decode[simsource]:{viol}"
    return None


_floaty = None


def _float_payloads():
    global _floaty
    if _floaty is None:
        _floaty = [c for c in universe.load() if "float64" in universe.features(c)]
    return _floaty


def gen_l1(rng) -> dict:
    n = rng.choice((1, 1, 2, 2, 3, 4, 6, 8))
    msgs = [gen_message(rng) for _ in range(n)]
    if rng.random() < 0.06:
        # a message with float fields followed by its equal-valued twin (+0.0 / -0.0)
        cls = rng.choice(_float_payloads())
        inst = gen.to_tree(gen.gen_instance(rng, cls, _small_shape(rng)))
        a, b = gen.zero_twins(rng, inst)
        q = universe.qualname(cls)
        msgs += [{"entities": [[q, a]], "size_prefix": False}, {"entities": [[q, b]], "size_prefix": False}]
    g0 = rng.randbytes(rng.choice((0, 0, 1, 3, 17)))
    g1 = rng.randbytes(rng.choice((0, 1, 1, 5, 40)))
    total_guess = 4096
    mode = rng.choice(streams.CHUNK_MODES)
    ch = streams.rng_chunker(rng, mode)
    chunks = [ch(64) for _ in range(rng.randint(0, 200))]
    total = sum(len(core.canon(m)) for m in msgs) // 2  # rough size of the history in bytes
    cfg = {"bufsize": rng.choice((1, 2, 7, 16, 64, 8192) if total < 20000 else (64, 8192)), "net_seed": rng.getrandbits(48),
           "segmentation": rng.choice(("byte", "small", "any", "any", "whole") if total < 20000 else ("any", "whole")), "high_water": rng.choice((1, 64, 4096, 65536)),
           "chunks": chunks, "chunk_mode": mode}
    sc = {"layer": "L1", "messages": msgs, "g0": g0.hex(), "g1": g1.hex(), "cfg": cfg, "fault": None}
    if rng.random() < 0.5:
        sc["fault"] = {"index": rng.randint(0, 60), "kind": rng.choice(streams.INJECT_KINDS_WRITE)}
    if rng.random() < 0.4:
        sc["poison"] = {"msg": rng.randrange(len(msgs)), "seeds": [rng.getrandbits(32) for _ in range(3)]}
    return sc


# ---- L2 ---------------------------------------------------------------------------------


class L2Result:
    def __init__(self) -> None:
        self.violation: str | None = None
        self.stats = collections.Counter()
        self.vtime = 0.0

    def flag(self, sig: str) -> None:
        if self.violation is None:
            self.violation = sig


def gen_l2_cfg(rng) -> dict:
    conns = rng.choice((1, 1, 2, 3, 4))
    cfg = {
        "conns": conns,
        "requests": rng.choice((1, 2, 3, 5, 8)),
        "depth": rng.choice((1, 1, 2, 4)),
        "segmentation": rng.choice(("byte", "small", "any", "any", "whole")),
        "jitter": rng.choice((0.0, 0.001, 0.02, 0.3)),
        "stall_rate": rng.choice((0.0, 0.0, 0.02, 0.1)),
        "stall_max": rng.choice((0.5, 3.0)),
        "high_water": rng.choice((1, 32, 1024, 65536)),
        "think_max": rng.choice((0.0, 0.01, 0.5)),
        "service_max": rng.choice((0.0, 0.01, 1.0)),
        "resets": [],
    }
    if rng.random() < 0.45:
        for ci in rng.sample(range(conns), rng.randint(1, conns)):
            cfg["resets"].append([ci, round(rng.random() * rng.choice((0.01, 0.1, 1.0)), 6)])
    return cfg


def run_l2(run_seed: int, cfg: dict) -> L2Result:
    from kio.serial import entity_reader, entity_writer
    from kio.serial.errors import BufferUnderflow
    from kio.serial.readers import read_int32
    from kio.serial.writers import write_int32
    from kio.static.primitive import i32

    res = L2Result()
    t = tables()
    loop = SimLoop()
    net = SimNet(loop, core.random.Random(core.derive_seed(run_seed, "net")), cfg)
    unhandled: list = []
    loop.set_exception_handler(lambda lp, ctx: unhandled.append(ctx.get("exception") or ctx.get("message")))
    resets = {ci: at for ci, at in cfg["resets"]}
    fault_window_open = [True]

    async def read_frame(r) -> io.BytesIO:
        n = read_int32(io.BytesIO(await r.readexactly(4)))
        return io.BytesIO(await r.readexactly(n))

    def write_frame(w, hcls, hdr, cls, payload) -> None:
        # the documented pattern: size from a BytesIO encoding, then straight into the stream writer
        tmp = io.BytesIO()
        entity_writer(hcls)(tmp, hdr)
        entity_writer(cls)(tmp, payload)
        write_int32(w, i32(tmp.tell()))
        entity_writer(hcls)(w, hdr)
        entity_writer(cls)(w, payload)

    async def broker(ci: int, conn, r, w, log: dict) -> None:
        rng = core.random.Random(core.derive_seed(run_seed, "broker", ci))
        try:
            while True:
                try:
                    body = await read_frame(r)
                except asyncio.IncompleteReadError as e:
                    if e.partial and not conn.was_reset and not log["client_gone"]:
                        res.flag("L2:broker-saw-truncated-frame-without-fault")
                    break
                raw = body.getvalue()
                key = (int.from_bytes(raw[0:2], "big", signed=True), int.from_bytes(raw[2:4], "big", signed=True))
                req_cls = t["req"].get(key)
                if req_cls is None:
                    res.flag("L2:broker-cannot-identify-request")
                    break
                hdr = entity_reader(req_cls.__header_schema__)(body)
                req = entity_reader(req_cls)(body)
                if body.read(1) != b"":
                    res.flag("L2:request-frame-not-exhausted")
                k = len(log["broker_received"])
                log["broker_received"].append((hdr, req))
                if k >= len(log["client_sent"]) or log["client_sent"][k] != (hdr, req) or type(req) is not type(log["client_sent"][k][1]):
                    res.flag("L2:request-received-differs-from-sent(order/integrity)")
                resp_cls = t["resp"][key]
                resp = gen.gen_instance(rng, resp_cls, _small_shape(rng) if cfg["depth"] == 1 else _net_safe_shape(rng))
                if cfg["depth"] > 1:
                    for _ in range(4):
                        if len(_alone(resp_cls, resp)) <= 16384:
                            break
                        resp = gen.gen_instance(rng, resp_cls, gen.MIN_SHAPE)
                rh = gen_header(rng, resp_cls.__header_schema__, resp_cls, correlation_id=hdr.correlation_id)
                if cfg["service_max"]:
                    await asyncio.sleep(rng.random() * cfg["service_max"])
                log["broker_sent"].append((rh, resp))
                write_frame(w, resp_cls.__header_schema__, rh, resp_cls, resp)
                await w.drain()
                res.stats["responses_written"] += 1
        except (ConnectionError, asyncio.IncompleteReadError) as e:
            if not conn.was_reset:
                res.flag(f"L2:broker-io-error-without-fault:{type(e).__name__}")
        except BufferUnderflow:
            res.flag("L2:broker-underflow-in-complete-frame")
        except SimDeadlock:
            raise
        except Exception as e:  # noqa: BLE001
            res.flag(f"L2:broker-exception:{type(e).__name__}")
        finally:
            w.close()

    async def client(ci: int, faulty: bool) -> None:
        rng = core.random.Random(core.derive_seed(run_seed, "client", ci))
        conn, (r, w), (rb, wb) = net.connect()
        log = {"client_sent": [], "broker_received": [], "broker_sent": [], "client_received": [], "client_gone": False}
        bt = loop.create_task(broker(ci, conn, rb, wb, log), name=f"broker-{ci}")
        if faulty and ci in resets:
            net.schedule_reset(conn, loop.time() + resets[ci])
        completed = 0
        n_req = cfg["requests"]
        try:
            inflight: collections.deque = collections.deque()
            outstanding = 0  # request bytes written but not yet answered (kept below the flow-control windows)
            for k in range(n_req):
                key = rng.choice(t["pairs"])
                req_cls, resp_cls = t["req"][key], t["resp"][key]
                # Pipelined calls (depth > 1) must stay far below the stream flow-control windows
                # (the reader pauses above 128 KiB): a client that keeps writing while not yet
                # reading and a broker blocked in drain() would otherwise dead-lock each other -
                # a property of this stub protocol, not of kio.  Large payloads therefore only
                # travel on unpipelined connections.
                if cfg["depth"] == 1:
                    shape = _BIG_SHAPE if rng.random() < 0.03 else _small_shape(rng)
                else:
                    shape = _net_safe_shape(rng)
                req = gen.gen_instance(rng, req_cls, shape)
                corr = i32(rng.randint(0, 2**31 - 1))
                hdr = gen_header(rng, req_cls.__header_schema__, req_cls, correlation_id=corr)
                log["client_sent"].append((hdr, req))
                write_frame(w, req_cls.__header_schema__, hdr, req_cls, req)
                await w.drain()
                res.stats["requests_written"] += 1
                inflight.append((corr, resp_cls))
                outstanding += len(_alone(req_cls, req)) + 64
                if len(inflight) >= cfg["depth"] or k == n_req - 1 or outstanding > 32768:
                    outstanding = 0
                    while inflight:
                        corr_x, rc = inflight.popleft()
                        body = await read_frame(r)
                        rh = entity_reader(rc.__header_schema__)(body)
                        resp = entity_reader(rc)(body)
                        if body.read(1) != b"":
                            res.flag("L2:response-frame-not-exhausted")
                        j = len(log["client_received"])
                        log["client_received"].append((rh, resp))
                        if rh.correlation_id != corr_x:
                            res.flag("L2:response-correlation-id-mismatch")
                        if j >= len(log["broker_sent"]) or log["broker_sent"][j] != (rh, resp) or type(resp) is not rc:
                            res.flag("L2:response-received-differs-from-sent(order/integrity)")
                        completed += 1
                        res.stats["calls_completed"] += 1
                if cfg["think_max"]:
                    await asyncio.sleep(rng.random() * cfg["think_max"])
        except (asyncio.IncompleteReadError, ConnectionError, BufferUnderflow) as e:
            res.stats[f"client_failed_{type(e).__name__}"] += 1
            if not conn.was_reset:
                res.flag(f"L2:client-io-error-without-fault:{type(e).__name__}")
        except SimDeadlock:
            raise
        except Exception as e:  # noqa: BLE001
            res.flag(f"L2:client-exception:{type(e).__name__}")
        finally:
            log["client_gone"] = True
            w.close()
        if not conn.was_reset and completed != n_req and res.violation is None:
            res.flag("L2:fault-free-connection-did-not-complete-all-calls")
        if conn.was_reset:
            res.stats["connections_reset"] += 1
            if completed < n_req:
                res.stats["connections_reset_with_calls_outstanding"] += 1
        else:
            res.stats["connections_clean"] += 1
        # exactly-once / prefix at the end of the connection
        if log["broker_received"] != log["client_sent"][:len(log["broker_received"])]:
            res.flag("L2:broker-received-not-a-prefix-of-client-sent")
        if log["client_received"] != log["broker_sent"][:len(log["client_received"])]:
            res.flag("L2:client-received-not-a-prefix-of-broker-sent")
        try:
            await asyncio.wait_for(bt, 30.0)
        except asyncio.TimeoutError:
            res.flag("L2:broker-task-did-not-finish")

    async def main() -> None:
        tasks = [loop.create_task(client(ci, True), name=f"client-{ci}") for ci in range(cfg["conns"])]
        await asyncio.gather(*tasks)
        # faults stop; a fresh connection must serve a probe within 5 virtual seconds
        fault_window_open[0] = False
        # (byte-wise segmentation with large jitter is a slow-network fault too: it ends with the fault window)
        net.cfg = {**net.cfg, "stall_rate": 0.0, "jitter": min(net.cfg.get("jitter", 0.0), 0.002),
                   "segmentation": "any" if net.cfg.get("segmentation") in ("byte", "small") else net.cfg.get("segmentation", "any")}
        saved = (cfg["requests"], cfg["service_max"], cfg["think_max"])
        cfg["requests"], cfg["service_max"], cfg["think_max"] = 1, 0.0, 0.0
        try:
            await asyncio.wait_for(client(10_000, False), 5.0)
            res.stats["liveness_probes_ok"] += 1
        except asyncio.TimeoutError:
            res.flag("L2:liveness:probe-not-served-within-5-virtual-seconds")
        finally:
            cfg["requests"], cfg["service_max"], cfg["think_max"] = saved

    try:
        loop.run_until_complete(loop.create_task(main(), name="main"))
    except SimDeadlock:
        res.flag("L2:deadlock(lost-wakeup)")
    finally:
        res.vtime = loop.time()
        for tk in asyncio.all_tasks(loop):
            tk.cancel()
        try:
            loop.run_until_complete(asyncio.sleep(0))
        except Exception:  # noqa: BLE001
            pass
        loop.close()
    if net.violations:
        res.flag("L2:transport:" + net.violations[0].split(": ", 1)[-1])
    if net.stats["retained_buffer_mutated"]:
        res.flag("L2:sink-argument-mutated-after-write")
    for u in unhandled:
        if isinstance(u, BaseException) and not isinstance(u, (ConnectionError, asyncio.CancelledError)):
            if core.exc_site(u) is None:
                # raised by the simulator's own callbacks, not by kio: never a verdict
                raise core.HarnessError(f"exception inside the simulated network: {type(u).__name__}: {u}")
            res.flag(f"L2:unhandled-in-loop:{type(u).__name__}")
    for k, v in net.stats.items():
        res.stats["net_" + k] += v
    for c in net.conns:
        for p in (c.a.out, c.b.out):
            res.stats["net_writes"] += p.writes
            res.stats["net_writes_dropped_after_reset"] += p.dropped_after_reset
    res.stats["loop_iterations"] += loop.iterations
    res.stats["clock_jumps"] += loop.clock_jumps
    return res


# ---- L3 ---------------------------------------------------------------------------------


def gen_l3_cfg(rng) -> dict:
    n = rng.choice((1, 2, 4, 8))
    cfg = {"requests": n, "bufsize_client": rng.choice((1, 16, 8192)), "bufsize_broker": rng.choice((1, 16, 8192)),
           "sched_seed": rng.getrandbits(48), "crash": None, "pipeline": rng.choice((1, 1, 2, 3))}
    if rng.random() < 0.4:
        # the client process dies after sending a fraction of frame j (crash point inside a live stream)
        cfg["crash"] = [rng.randrange(n), rng.random()]
    return cfg


def run_l3(run_seed: int, cfg: dict, forced: list | None = None) -> tuple[str | None, dict]:
    """The sync example of the docs with two real threads; kio's read_exact sits
    directly on a live BufferedReader whose data arrives in pieces."""
    import threading

    from kio.serial import entity_reader, entity_writer
    from kio.serial.errors import BufferUnderflow
    from kio.serial.readers import read_int32
    from kio.serial.writers import write_int32
    from kio.static.primitive import i32

    t = tables()
    rng = core.random.Random(cfg["sched_seed"])
    decisions: list = []
    fi = [0]

    def choose(options: int, tag: str) -> int:
        """Every scheduling decision goes through here: recorded, or forced on replay."""
        if forced is not None:
            v = forced[fi[0]] if fi[0] < len(forced) else 0
            fi[0] += 1
            return min(v, options - 1)
        v = rng.randrange(options)
        decisions.append(v)
        return v

    class Baton:
        def __init__(self):
            self.sems = {}
            self.runnable = []
            self.blocked = {}
            self.done = threading.Semaphore(0)
            self.switches = 0
            self.deadlock = False
            self.errors = {}

        def spawn(self, name, fn):
            self.sems[name] = threading.Semaphore(0)
            self.runnable.append(name)

            def body():
                self.sems[name].acquire()
                try:
                    fn()
                except BaseException as e:  # noqa: BLE001
                    self.errors[name] = e
                finally:
                    self._exit(name)

            th = threading.Thread(target=body, name=name, daemon=True)
            th.start()
            return th

        def _wake(self):
            for n in sorted(self.blocked):
                if self.blocked[n]():
                    del self.blocked[n]
                    self.runnable.append(n)
                    self.runnable.sort()

        def _pick(self):
            self._wake()
            if not self.runnable:
                return None
            return self.runnable[choose(len(self.runnable), "pick")]

        def _switch(self, me, nxt):
            if nxt == me:
                return
            self.switches += 1
            self.sems[nxt].release()
            self.sems[me].acquire()

        def yield_(self, me):
            nxt = self._pick()
            self._switch(me, nxt)

        def block_until(self, me, cond):
            while not cond():
                self.runnable.remove(me)
                self.blocked[me] = cond
                nxt = self._pick()
                if nxt is None:
                    self.deadlock = True
                    raise RuntimeError("sim deadlock")
                if nxt != me:
                    self._switch(me, nxt)

        def _exit(self, me):
            if me in self.runnable:
                self.runnable.remove(me)
            self.blocked.pop(me, None)
            nxt = self._pick()
            if nxt is None:
                if self.blocked:
                    self.deadlock = True
                    for n in list(self.blocked):
                        pass
                self.done.release()
            else:
                self.sems[nxt].release()

        def start(self):
            first = self._pick()
            self.sems[first].release()
            self.done.acquire()

    class Pipe:
        def __init__(self):
            self.buf = bytearray()
            self.avail = 0
            self.closed = False
            self.sent = bytearray()
            self.got = bytearray()

    bt = Baton()

    class RawR(io.RawIOBase):
        def __init__(self, pipe, me):
            super().__init__()
            self.p = pipe
            self.me = me

        def readable(self):
            return True

        def readinto(self, b):
            p = self.p
            bt.block_until(self.me, lambda: p.avail > 0 or p.closed)
            if p.avail == 0:
                return 0
            n = 1 + choose(min(len(b), p.avail), "chunk")
            b[:n] = p.buf[:n]
            p.got += p.buf[:n]
            del p.buf[:n]
            p.avail -= n
            return n

    class RawW(io.RawIOBase):
        def __init__(self, pipe, me):
            super().__init__()
            self.p = pipe
            self.me = me

        def writable(self):
            return True

        def write(self, b):
            data = bytes(b)
            self.p.buf += data
            self.p.sent += data
            # the network makes a scheduler-chosen amount visible now, the rest after a yield
            lo = self.p.avail
            self.p.avail = lo + choose(len(self.p.buf) - lo + 1, "visible")
            bt.yield_(self.me)
            self.p.avail = len(self.p.buf)
            return len(data)

        def close(self):
            if not self.closed:
                self.p.closed = True
                self.p.avail = len(self.p.buf)
            super().close()

    c2s, s2c = Pipe(), Pipe()
    sent_req: list = []
    recv_req: list = []
    sent_resp: list = []
    viol: list = []
    wl_rng = core.random.Random(core.derive_seed(run_seed, "l3-workload"))
    n_req = cfg["requests"]
    plan_ = []
    for _ in range(n_req):
        key = wl_rng.choice(t["pairs"])
        req_cls, resp_cls = t["req"][key], t["resp"][key]
        req = gen.gen_instance(wl_rng, req_cls, _small_shape(wl_rng))
        hdr = gen_header(wl_rng, req_cls.__header_schema__, req_cls, correlation_id=i32(wl_rng.randint(0, 2**31 - 1)))
        resp = gen.gen_instance(wl_rng, resp_cls, _small_shape(wl_rng))
        rh = gen_header(wl_rng, resp_cls.__header_schema__, resp_cls, correlation_id=hdr.correlation_id)
        plan_.append((req_cls, hdr, req, resp_cls, rh, resp))

    def frame(w, hcls, hdr, cls, payload):
        tmp = io.BytesIO()
        entity_writer(hcls)(tmp, hdr)
        entity_writer(cls)(tmp, payload)
        write_int32(w, i32(tmp.tell()))
        entity_writer(hcls)(w, hdr)
        entity_writer(cls)(w, payload)
        w.flush()

    crash = cfg.get("crash")
    outcome = {"broker_end": None, "torn_at": None}

    def client():
        r = io.BufferedReader(RawR(s2c, "client"), buffer_size=max(16, cfg["bufsize_client"]))
        w = io.BufferedWriter(RawW(c2s, "client"), buffer_size=cfg["bufsize_client"])
        depth = cfg.get("pipeline", 1)
        pending: list = []
        for k_req, (req_cls, hdr, req, resp_cls, rh, resp) in enumerate(plan_):
            if crash is not None and crash[0] == k_req:
                tmp = io.BytesIO()
                frame(tmp, req_cls.__header_schema__, hdr, req_cls, req)
                whole = tmp.getvalue()
                cut = min(len(whole) - 1, int(crash[1] * len(whole)))
                outcome["torn_at"] = [cut, len(whole)]
                w.write(whole[:cut])
                w.flush()
                w.close()
                return
            sent_req.append((hdr, req))
            frame(w, req_cls.__header_schema__, hdr, req_cls, req)
            pending.append((resp_cls, rh, resp))
            if len(pending) < depth and k_req != len(plan_) - 1:
                continue  # pipelining: the next request is encoded while the broker encodes its response
            for resp_cls, rh, resp in pending:
                # kio reads straight from the live stream (no intermediate BytesIO)
                n = read_int32(r)
                h2 = entity_reader(resp_cls.__header_schema__)(r)
                p2 = entity_reader(resp_cls)(r)
                if (h2, p2) != (rh, resp) or type(p2) is not resp_cls:
                    viol.append("L3:response-differs-from-sent")
                tmp = io.BytesIO()
                entity_writer(resp_cls.__header_schema__)(tmp, rh)
                entity_writer(resp_cls)(tmp, resp)
                if n != tmp.tell():
                    viol.append("L3:size-prefix-differs")
            pending.clear()
        w.close()

    def broker():
        r = io.BufferedReader(RawR(c2s, "broker"), buffer_size=max(16, cfg["bufsize_broker"]))
        w = io.BufferedWriter(RawW(s2c, "broker"), buffer_size=cfg["bufsize_broker"])
        k = 0
        try:
            while True:
                try:
                    read_int32(r)
                except BufferUnderflow:
                    outcome["broker_end"] = "eof-at-or-inside-size-prefix"
                    break  # clean EOF between frames (or the crash landed inside the size prefix)
                req_cls, hdr, req, resp_cls, rh, resp = plan_[k]
                try:
                    h2 = entity_reader(req_cls.__header_schema__)(r)
                    q2 = entity_reader(req_cls)(r)
                except BufferUnderflow:
                    if crash is not None and crash[0] == k:
                        outcome["broker_end"] = "underflow-inside-torn-frame"
                        break
                    raise
                if crash is not None and crash[0] == k:
                    viol.append("L3:torn-frame-decoded-to-a-value")
                recv_req.append((h2, q2))
                if (h2, q2) != (hdr, req) or type(q2) is not req_cls:
                    viol.append("L3:request-differs-from-sent")
                sent_resp.append((rh, resp))
                frame(w, resp_cls.__header_schema__, rh, resp_cls, resp)
                k += 1
        finally:
            w.close()

    ths = [bt.spawn("broker", broker), bt.spawn("client", client)]
    bt.start()
    for th in ths:
        th.join(timeout=30)
    info = {"switches": bt.switches, "decisions": decisions, "bytes": len(c2s.sent) + len(s2c.sent)}
    for name in sorted(bt.errors):
        e = bt.errors[name]
        viol.append(f"L3:{name}-raised:{type(e).__name__}" if not bt.deadlock else "L3:deadlock")
    if bt.deadlock and not viol:
        viol.append("L3:deadlock")
    if not viol:
        if recv_req != sent_req:
            viol.append("L3:requests-received-not-equal-to-sent")
        if crash is None and (bytes(c2s.got) != bytes(c2s.sent) or bytes(s2c.got) != bytes(s2c.sent)):
            viol.append("L3:bytes-not-fully-consumed")
        if crash is not None and outcome["broker_end"] is None:
            viol.append("L3:broker-did-not-notice-the-crash")
    info["crash"] = outcome
    return (viol[0] if viol else None), info


# ---- task runner -----------------------------------------------------------------------------


def run_task(task: dict) -> dict:
    stats = core.Stats()
    log = core.Log()
    violations = []
    vcount: dict = {}
    samples = []
    distinct = set()
    runs = 0
    layer = task["layer"]

    def report(sig, run_seed, scenario):
        vcount[sig] = vcount.get(sig, 0) + 1
        stats.inc("violating_runs")
        if vcount[sig] <= 2:
            violations.append({"signature": sig, "run_seed": run_seed, "scenario": scenario})

    for idx in range(task["first"], task["first"] + task["count"]):
        core.gc_tick()
        run_seed = core.derive_seed(PROP, task["seed"], layer, idx)
        rng = core.random.Random(run_seed)
        runs += 1
        stats.inc(f"runs_{layer}")
        if layer == "L1":
            sc = gen_l1(rng)
            with core.wall_backstop(120):
                try:
                    sig = l1_case(sc)
                except core.SimWallAlarm:
                    sig = None
                    stats.inc("wall_alarms")
            n_ent = sum(len(m["entities"]) for m in sc["messages"])
            stats.inc("evaluations", len(SINK_KINDS) + len(SOURCE_KINDS) + (1 if sc["fault"] else 0) + (4 if sc.get("poison") else 0))
            if sc.get("poison"):
                stats.inc("l1_histories_with_rejected_value_encode")
            stats.inc("l1_messages", len(sc["messages"]))
            stats.inc("l1_entities", n_ent)
            if sc["fault"]:
                stats.inc(f"fault_sink_{sc['fault']['kind']}")
            stats.inc(f"l1_segmentation_{sc['cfg']['segmentation']}")
            if len(sc["messages"]) > 1:
                distinct.add(core.canon([m["entities"] for m in sc["messages"]])[:2000] + str(idx))
                stats.inc("probe_multi_message_history")
            if sc["g0"]:
                stats.inc("probe_leading_garbage")
            if sig is not None:
                report(sig, run_seed, sc)
            log.add("L1", idx, len(sc["messages"]), n_ent, sig)
            if len(samples) < 1:
                samples.append({"layer": "L1", "messages": [[q for q, _ in m["entities"]] + (["+size-prefix"] if m["size_prefix"] else [])
                                                           for m in sc["messages"]],
                                "leading_garbage": len(sc["g0"]) // 2, "trailing_garbage": len(sc["g1"]) // 2,
                                "sink_kinds": list(SINK_KINDS), "source_kinds": list(SOURCE_KINDS), "sink_fault": sc["fault"],
                                "cfg": {k: v for k, v in sc["cfg"].items() if k != "chunks"}})
        elif layer == "L2":
            cfg = gen_l2_cfg(rng)
            with core.wall_backstop(300):
                try:
                    res = run_l2(run_seed, cfg)
                    sig = res.violation
                except core.SimWallAlarm:
                    res = None
                    sig = None
                    stats.inc("wall_alarms")
            if res is not None:
                stats.inc("evaluations", res.stats["calls_completed"] + res.stats["connections_reset"] + 1)
                for k, v in res.stats.items():
                    stats.inc("l2_" + k, v)
                stats["simulated_seconds"] = stats.get("simulated_seconds", 0.0) + res.vtime
                if res.stats["net_fault_reset_with_bytes_in_flight"]:
                    stats.inc("probe_reset_landed_inside_a_frame", 1)
                if res.stats["net_backpressure_pauses"]:
                    stats.inc("probe_drain_really_waited", 1)
                if res.stats["net_writes_dropped_after_reset"]:
                    stats.inc("probe_write_after_reset_dropped", 1)
                distinct.add((core.canon(cfg), res.stats["net_segments"], res.stats["loop_iterations"]))
            if sig is not None:
                report(sig, run_seed, {"layer": "L2", "run_seed": run_seed, "cfg": cfg})
            log.add("L2", idx, core.canon(cfg), sig, res and sorted(res.stats.items()), res and round(res.vtime, 9))
            if len(samples) < 1 and res is not None:
                samples.append({"layer": "L2", "cfg": cfg, "virtual_seconds": round(res.vtime, 6),
                                "calls_completed": res.stats["calls_completed"], "segments": res.stats["net_segments"],
                                "resets_fired": res.stats["net_fault_reset"]})
        else:
            cfg = gen_l3_cfg(rng)
            with core.wall_backstop(300):
                try:
                    sig, info = run_l3(run_seed, cfg)
                except core.SimWallAlarm:
                    sig, info = None, {"switches": 0, "decisions": [], "bytes": 0}
                    stats.inc("wall_alarms")
            stats.inc("evaluations", cfg["requests"])
            stats.inc("l3_switches", info["switches"])
            stats.inc("l3_scheduler_decisions", len(info["decisions"]))
            stats.inc("l3_bytes", info["bytes"])
            if cfg.get("crash") is not None:
                stats.inc("fault_l3_peer_crash_inside_frame")
                stats.inc("l3_crash_" + str((info.get("crash") or {}).get("broker_end")))
            import hashlib

            distinct.add(hashlib.sha256(core.canon([cfg, info["decisions"]]).encode()).hexdigest()[:16])
            if sig is not None:
                report(sig, run_seed, {"layer": "L3", "run_seed": run_seed, "cfg": cfg, "decisions": info["decisions"]})
            log.add("L3", idx, core.canon(cfg), info["switches"], len(info["decisions"]), info["bytes"], sig)
            if len(samples) < 1:
                samples.append({"layer": "L3", "cfg": cfg, "thread_switches": info["switches"], "scheduler_decisions": len(info["decisions"]),
                                "bytes_on_the_wire": info["bytes"]})
    stats.inc(f"distinct_{layer}", len(distinct))
    return {"stats": dict(stats), "digest": log.digest(), "violations": violations, "samples": samples,
            "distinct": len(distinct), "runs": runs}


# ---- replay / shrink ------------------------------------------------------------------------------


def evaluate(scenario: dict):
    layer = scenario["layer"]
    if layer == "L1":
        with core.wall_backstop(120):
            return l1_case(scenario)
    if layer == "L2":
        with core.wall_backstop(300):
            return run_l2(scenario["run_seed"], dict(scenario["cfg"], resets=[list(r) for r in scenario["cfg"]["resets"]])).violation
    if layer == "L3":
        with core.wall_backstop(300):
            return run_l3(scenario["run_seed"], scenario["cfg"], forced=scenario.get("decisions"))[0]
    return None


def candidates(scenario: dict):
    layer = scenario["layer"]
    if layer == "L1":
        msgs = scenario["messages"]
        if scenario.get("fault") is not None:
            yield {**scenario, "fault": None}
        if scenario.get("poison") is not None:
            yield {**scenario, "poison": None}
            for sd in scenario["poison"]["seeds"]:
                if len(scenario["poison"]["seeds"]) > 1:
                    yield {**scenario, "poison": {**scenario["poison"], "seeds": [sd]}}
        for i in range(len(msgs)):
            if len(msgs) > 1:
                yield {**scenario, "messages": msgs[:i] + msgs[i + 1:]}
        for k in ("g0", "g1"):
            if scenario[k]:
                yield {**scenario, k: ""}
        for i, m in enumerate(msgs):
            if m["size_prefix"]:
                yield {**scenario, "messages": msgs[:i] + [{**m, "size_prefix": False}] + msgs[i + 1:]}
            if len(m["entities"]) > 1:
                for j in range(len(m["entities"])):
                    yield {**scenario, "messages": msgs[:i] + [{**m, "entities": m["entities"][:j] + m["entities"][j + 1:]}] + msgs[i + 1:]}
            for j, (q, t) in enumerate(m["entities"]):
                for n, cand in enumerate(gen.tree_candidates(t)):
                    if n > 60:
                        break
                    ents = m["entities"][:j] + [[q, cand]] + m["entities"][j + 1:]
                    yield {**scenario, "messages": msgs[:i] + [{**m, "entities": ents}] + msgs[i + 1:]}
    elif layer == "L2":
        cfg = scenario["cfg"]
        if cfg["resets"]:
            yield {**scenario, "cfg": {**cfg, "resets": []}}
            for i in range(len(cfg["resets"])):
                yield {**scenario, "cfg": {**cfg, "resets": cfg["resets"][:i] + cfg["resets"][i + 1:]}}
        if cfg["conns"] > 1:
            yield {**scenario, "cfg": {**cfg, "conns": cfg["conns"] - 1, "resets": [r for r in cfg["resets"] if r[0] < cfg["conns"] - 1]}}
        if cfg["requests"] > 1:
            yield {**scenario, "cfg": {**cfg, "requests": cfg["requests"] // 2}}
            yield {**scenario, "cfg": {**cfg, "requests": cfg["requests"] - 1}}
        for k, v in (("depth", 1), ("stall_rate", 0.0), ("jitter", 0.0), ("think_max", 0.0), ("service_max", 0.0), ("high_water", 65536),
                     ("segmentation", "whole")):
            if cfg[k] != v:
                yield {**scenario, "cfg": {**cfg, k: v}}
    elif layer == "L3":
        cfg = scenario["cfg"]
        if cfg["requests"] > 1:
            yield {**scenario, "cfg": {**cfg, "requests": cfg["requests"] - 1}, "decisions": None}
        d = scenario.get("decisions")
        if d:
            yield {**scenario, "decisions": [0] * len(d)}
            yield {**scenario, "decisions": d[: len(d) // 2]}


# ---- evidence ----------------------------------------------------------------------------------------


def finalize(stats, tier, runs, distinct, samples, wall):
    sim_s = stats.get("simulated_seconds", 0.0)
    coverage = {
        "evaluations": int(stats.get("evaluations", 0)),
        "distinct_nontrivial": distinct,
        "rule": "L1: one run = one history of 1-8 messages ((header, payload) of request/response classes or bare entities, optional size prefix, leading/trailing garbage) "
                "encoded into 5 sink kinds and decoded from 3 source kinds, each an evaluation, plus a sink-failure variant (distinct = distinct multi-message histories); "
                "L2: one run = one simulated network of 1-4 client<->broker connections following the documented asyncio pattern (evaluations = completed calls + reset connections + liveness probe; "
                "distinct = distinct (configuration, segments, loop iterations)); L3: one run = one blocking client<->broker thread pair (evaluations = calls; distinct = distinct scheduler decision sequences)",
        "samples": samples,
        "exhaustive": False,
        "runs_by_layer": {k[5:]: v for k, v in sorted(stats.items()) if k.startswith("runs_")},
        "distinct_by_layer": {k[9:]: v for k, v in sorted(stats.items()) if k.startswith("distinct_")},
        "simulated_time_s": round(sim_s, 3),
        "simulated_time_note": "virtual seconds on the SimLoop clock (L2); L1/L3 have no clock",
        "l1": {k[3:]: v for k, v in sorted(stats.items()) if k.startswith("l1_")},
        "l2": {k[3:]: v for k, v in sorted(stats.items()) if k.startswith("l2_")},
        "l3": {k[3:]: v for k, v in sorted(stats.items()) if k.startswith("l3_")},
        "faults_fired": {**{k: v for k, v in sorted(stats.items()) if k.startswith("fault_")},
                         "net_reset": stats.get("l2_net_fault_reset", 0), "net_reset_with_bytes_in_flight": stats.get("l2_net_fault_reset_with_bytes_in_flight", 0),
                         "net_stall": stats.get("l2_net_fault_stall", 0), "net_backpressure_pauses": stats.get("l2_net_backpressure_pauses", 0),
                         "net_segments": stats.get("l2_net_segments", 0), "writes_dropped_after_reset": stats.get("l2_net_writes_dropped_after_reset", 0)},
        "probes": {k: v for k, v in sorted(stats.items()) if k.startswith("probe_")},
        "wall_alarms": stats.get("wall_alarms", 0),
        "seeds_per_hour": int(runs / wall * 3600) if wall else 0,
    }
    assumptions = [
        "TCP-like network per connection: no loss, duplication or reordering inside one direction of one connection; those are modelled across connections",
        "the broker and client loops are harness code following docs/pages/usage.rst (kio ships neither); request classes are identified from the universe's own __api_key__/__version__ attributes, not from kio.index",
        "asyncio's FIFO order of ready callbacks is kept; interleavings vary through segment arrival times, think/service times and fault instants",
    ]
    problems = []
    need = ["probe_multi_message_history", "probe_leading_garbage", "probe_reset_landed_inside_a_frame", "probe_drain_really_waited",
            "probe_write_after_reset_dropped", "l2_liveness_probes_ok"]
    for p in need:
        if not stats.get(p):
            problems.append(f"probe {p} never fired")
    return coverage, assumptions, problems
