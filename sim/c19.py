"""C19 - readers and writers are stateless: history, failures and threads do
not matter.

One oracle for three simulations: the ISOLATED GOLDEN - for class T and
instance x, the bytes enc*(T,x) and the value dec*(T, enc*(T,x)) obtained in a
fresh os.fork() child in which nothing but T's codec was ever created or used.

  H  histories        permuted op lists over a pool of colliding classes
  F  stream failures   injected I/O error at every write/read call index,
                       asynchronous interrupt at kio line steps (warm and
                       during cold construction of the cached closure)
  T  thread schedules  2-4 real threads, cold caches, baton scheduler with
                       seeded pre-emption at source-line granularity
"""

from __future__ import annotations

import dataclasses
import threading

from . import core, driver, forkrun, gen, steps, streams, universe, workload
from .threads import Scheduler, StepCapExceeded

PROP = "C19"
LEVEL = "exploration"
MEM_GIB = 4.0
SHRINK_CAP = 400
SHRINK_WALL_S = 90
MAX_REPORTS = 4

TIERS = {
    "quick": {"H": 150, "F": 90, "T": 420, "S": 48},
    "thorough": {"H": 24000, "F": 9000, "T": 100000, "S": 1500},
}
INJECT_W = streams.INJECT_KINDS_WRITE
INJECT_R = streams.INJECT_KINDS_READ


def plan(tier: str, seed: int, scale: float = 1.0) -> list[dict]:
    cfg = TIERS[tier]
    tasks = []
    for layer in ("H", "F", "T", "S"):
        n = max(4, int(cfg[layer] * scale))
        per = {"H": 5, "F": 3, "T": 14, "S": 2}[layer]
        for i in range(0, n, per):
            tasks.append({"seed": seed, "layer": layer, "first": i, "count": min(per, n - i), "tier": tier})
    return tasks


# ---- pools of colliding classes ------------------------------------------------


_by_api = None


def _apis():
    global _by_api
    if _by_api is None:
        _by_api = {}
        for c in universe.load():
            api, ver, typ = universe.api_of(c)
            _by_api.setdefault(api, {}).setdefault(ver, []).append(c)
    return _by_api


_floaty = None


def _float_classes() -> list[type]:
    global _floaty
    if _floaty is None:
        _floaty = [c for c in universe.load() if "float64" in universe.features(c)]
    return _floaty


_nullstruct = None


def _nullable_struct_classes() -> list[type]:
    global _nullstruct
    if _nullstruct is None:
        _nullstruct = [c for c in universe.load() if "nullable_struct" in universe.features(c)]
    return _nullstruct


def choose_pool(rng, lo: int = 3, hi: int = 10) -> list[type]:
    apis = _apis()
    names = sorted(a for a in apis if a not in ("request_header", "response_header"))
    pool: list[type] = []

    def add(c):
        if c not in pool:
            pool.append(c)

    want = rng.randint(lo, hi)
    api = rng.choice(names)
    vers = sorted(apis[api])
    picked = {vers[0], vers[-1]} | set(rng.sample(vers, min(len(vers), rng.randint(1, 3))))
    for v in sorted(picked):
        classes = apis[api][v]
        tops = [c for c in classes if universe.kind(c) in ("request", "response", "data")]
        nested = [c for c in classes if universe.kind(c) == "nested"]
        for c in rng.sample(tops, min(len(tops), rng.randint(1, 2))):
            add(c)
        if nested and rng.random() < 0.6:
            add(rng.choice(nested))
    hdrs = [c for a in ("request_header", "response_header") for v in sorted(apis[a]) for c in apis[a][v]]
    for c in rng.sample(hdrs, rng.randint(1, 2)):
        add(c)
    if rng.random() < 0.5:
        add(rng.choice(universe.load()))
    if rng.random() < 0.5:
        tagged = [c for c in universe.load() if universe.has_tagged_fields(c)]
        add(rng.choice(tagged))
    if rng.random() < 0.2:
        add(rng.choice(_float_classes()))
    if rng.random() < 0.2:
        add(rng.choice(_nullable_struct_classes()))
    rng.shuffle(pool)
    pool = pool[:max(lo, want)]
    if rng.random() < 0.12:
        # a caller-defined subclass of an entity class together with its base class (in either order)
        from . import synth

        pair = list(rng.choice(synth.load()))
        rng.shuffle(pair)
        pool = [c for c in pool if c not in pair]
        for c in pair:
            pool.insert(rng.randrange(len(pool) + 1), c)
    return pool


# ---- isolated goldens ------------------------------------------------------------


def _golden_child(qn: str, trees: list) -> list:
    from kio.serial import entity_reader, entity_writer

    cls = universe.by_name(qn)
    out = []
    for t in trees:
        try:
            inst = gen.from_tree(t)
            # plain in-memory streams: which kinds of sink/source work is C07's subject
            data, nw = workload.encode_clean(cls, inst)
            val, src = workload.decode_clean(cls, data)
            ok = val == inst and type(val) is cls and src.pos == len(data)
            out.append((data, gen.to_tree(val), nw, len(src.calls)) if ok else None)
        except Exception:  # noqa: BLE001
            out.append(None)
    return out


class Workload:
    """Pool of classes, instances (as trees) and their isolated goldens."""

    def __init__(self, pool_qn: list[str], trees: list[list]):
        self.pool = pool_qn
        self.trees = trees
        self.gold: list[list] = []

    def compute_goldens(self, stats=None) -> None:
        self.gold = []
        for qn, ts in zip(self.pool, self.trees):
            g = forkrun.run(_golden_child, qn, ts)
            if stats is not None:
                stats.inc("golden_forks")
                stats.inc("discarded_by_prepass", sum(1 for x in g if x is None))
            self.gold.append(g)

    def usable(self) -> list[tuple[int, int]]:
        return [(ci, ii) for ci, g in enumerate(self.gold) for ii, x in enumerate(g) if x is not None]

    def to_json(self) -> dict:
        return {"pool": self.pool, "trees": self.trees}

    @classmethod
    def from_json(cls, d: dict) -> "Workload":
        return cls(d["pool"], d["trees"])


def make_workload(rng, stats=None, lo=3, hi=10, per_class=2) -> Workload:
    pool = choose_pool(rng, lo, hi)
    trees = []
    for c in pool:
        ts = []
        for _ in range(per_class):
            shape = gen.draw_shape(rng)
            while shape["name"] in ("big", "huge"):
                shape = gen.draw_shape(rng)
            ts.append(gen.to_tree(gen.gen_instance(rng, c, shape)))
        if per_class >= 2 and gen.has_float(ts[0]) and rng.random() < 0.6:
            # equal-but-differently-encoded twins (+0.0 / -0.0)
            ts[0], ts[1] = gen.zero_twins(rng, ts[0])
            if stats is not None:
                stats.inc("probe_equal_valued_twin_instances")
        trees.append(ts)
    wl = Workload([universe.qualname(c) for c in pool], trees)
    wl.compute_goldens(stats)
    return wl


# ---- executing ops against the real codecs ----------------------------------------


def _poison(tree, path_seed: int):
    """Replace one leaf of an instance tree by a value its writer rejects."""
    rng = core.random.Random(path_seed)
    leaves = []

    def walk(t, path):
        if isinstance(t, dict) and "$" in t:
            for k in sorted(t["f"]):
                walk(t["f"][k], path + [("f", k)])
        elif isinstance(t, list):
            for i, v in enumerate(t):
                walk(v, path + [("i", i)])
        elif t is not None:
            leaves.append(path)

    walk(tree, [])
    if not leaves:
        return None
    path = rng.choice(leaves)

    def rebuild(t, p):
        if not p:
            if isinstance(t, str):
                return {"poison": "int"}
            return {"poison": "str"}
        kind, key = p[0]
        if kind == "f":
            nf = dict(t["f"])
            nf[key] = rebuild(t["f"][key], p[1:])
            return {"$": t["$"], "f": nf}
        return t[:key] + [rebuild(t[key], p[1:])] + t[key + 1:]

    return rebuild(tree, path)


def _from_tree_poison(t):
    if isinstance(t, dict) and "poison" in t:
        return 2**70 if t["poison"] == "int" else "☃ not a number"
    if isinstance(t, list):
        return tuple(_from_tree_poison(v) for v in t)
    if isinstance(t, dict) and "$" in t:
        import importlib

        mod, name = t["$"].split(":")
        cls = getattr(importlib.import_module(mod), name)
        return cls(**{k: _from_tree_poison(v) for k, v in t["f"].items()})
    return gen.from_tree(t)


def _uvarint(v: int) -> bytes:
    out = bytearray()
    while True:
        b = v & 0x7F
        v >>= 7
        if v:
            out.append(b | 0x80)
        else:
            out.append(b)
            return bytes(out)


def exec_op(op: list, wl: Workload, cache: dict) -> str | None:
    """Execute one op; return a violation signature or None.  ``cache`` maps
    tree positions to reconstructed instances (harness-side only)."""
    from kio.serial import entity_reader, entity_writer

    kind, ci = op[0], op[1]
    cls = universe.by_name(wl.pool[ci])
    # creating (or fetching) the cached closure must never fail for a schema class
    try:
        if kind == "mkr":
            entity_reader(cls, nullable=bool(op[2]))
            return None
        if kind == "mkw":
            entity_writer(cls, nullable=bool(op[2]))
            return None
        if kind in ("enc", "encn", "encbad"):
            entity_writer(cls, nullable=(kind == "encn"))
        else:
            entity_reader(cls, nullable=(kind == "decn"))
    except Exception as e:  # noqa: BLE001
        return f"{kind}:creating-codec-raised:{type(e).__name__}"
    ii = op[2]
    g = wl.gold[ci][ii] if ii >= 0 else None
    if ii >= 0 and g is None:
        return None
    if kind in ("enc", "encn"):
        inst = None
        fresh = kind == "enc" and len(op) > 4 and op[4]
        if ii >= 0:
            inst = None if fresh else cache.get((ci, ii))
            if inst is None:
                # "fresh": a newly allocated (equal) instance - it may reuse the memory of an
                # entity that an earlier op decoded and dropped (identity-keyed side tables)
                inst = gen.from_tree(wl.trees[ci][ii])
                if not fresh:
                    cache[(ci, ii)] = inst
        reps = op[3] if kind == "enc" else 1
        w = entity_writer(cls, nullable=True) if kind == "encn" else entity_writer(cls)
        want = (b"\xff" if inst is None else b"\x01" + g[0]) if kind == "encn" else g[0]
        for _ in range(reps):
            sink = streams.SimSink(returns_none=bool(reps & 1), retain=False)
            try:
                w(sink, inst)
            except Exception as e:  # noqa: BLE001
                return f"{kind}:exception:{type(e).__name__}"
            if streams.sink_data(sink) != want:
                return f"{kind}:bytes-differ-from-isolated-golden"
        return None
    if kind in ("dec", "decn"):
        reps = op[3] if kind == "dec" else 1
        r = entity_reader(cls, nullable=True) if kind == "decn" else entity_reader(cls)
        data = (b"\xff" if g is None else b"\x01" + g[0]) if kind == "decn" else g[0]
        for _ in range(reps):
            src = streams.SimSource(data + b"\xa5")
            try:
                val = r(src)
            except Exception as e:  # noqa: BLE001
                return f"{kind}:exception:{type(e).__name__}"
            if g is None:
                if val is not None:
                    return f"{kind}:value-differs-from-isolated-golden"
            else:
                if type(val) is not cls:
                    return f"{kind}:wrong-class:{type(val).__module__}"
                if gen.to_tree(val) != g[1]:
                    return f"{kind}:value-differs-from-isolated-golden"
            if src.pos != len(data):
                return f"{kind}:consumed-differs-from-isolated-golden"
        return None
    if kind == "decfwd":
        # a forward-compatible message: the same entity with one tagged field this schema
        # version does not know appended to the top-level tagged section (count 0 -> 1)
        data = g[0]
        if not cls.__flexible__ or not data.endswith(b"\x00") or universe.has_tagged_fields(cls):
            return None
        tag, payload = op[3], bytes.fromhex(op[4])
        fwd = data[:-1] + b"\x01" + _uvarint(tag) + _uvarint(len(payload)) + payload
        src = streams.SimSource(fwd)
        try:
            val = entity_reader(cls)(src)
        except Exception as e:  # noqa: BLE001
            return f"decfwd:exception:{type(e).__name__}"
        if type(val) is not cls or gen.to_tree(val) != g[1] or src.pos != len(fwd):
            return "decfwd:value-differs-from-isolated-golden"
        del val
        return None
    if kind == "encbad":
        bad = _poison(wl.trees[ci][ii], op[3])
        if bad is None:
            return None
        try:
            inst = _from_tree_poison(bad)
            entity_writer(cls)(streams.SimSink(retain=False), inst)
        except Exception:  # noqa: BLE001 - expected: the writer rejects the value
            pass
        return None
    if kind == "decbad":
        data = g[0]
        mode, arg = op[3], op[4]
        if mode == "cut":
            data = data[:arg % max(1, len(data))]
        else:
            m = bytearray(data)
            if m:
                m[arg % len(m)] ^= 0x80 | (arg & 0x7F) or 0x80
            data = bytes(m)
        try:
            entity_reader(cls)(streams.SimSource(data, budget=64 + 8 * (len(data) + universe.n_fields_reachable(cls))))
        except Exception:  # noqa: BLE001 - expected
            pass
        except streams.SimBudgetExceeded:
            return "decbad:loop"
        return None
    raise ValueError(op)


def gen_ops(rng, wl: Workload, n: int, max_reps: int = 50) -> list[list]:
    usable = wl.usable()
    ops: list[list] = []
    if not usable:
        return ops
    for _ in range(n):
        ci, ii = rng.choice(usable)
        r = rng.random()
        if r < 0.08:
            ops.append(["mkr", rng.randrange(len(wl.pool)), rng.random() < 0.3])
        elif r < 0.16:
            ops.append(["mkw", rng.randrange(len(wl.pool)), rng.random() < 0.3])
        elif r < 0.40:
            ops.append(["enc", ci, ii, rng.choice((1, 1, 1, 2, 3, 17, max_reps, 130, 300)), rng.random() < 0.4])
        elif r < 0.64:
            ops.append(["dec", ci, ii, rng.choice((1, 1, 1, 2, 3, 17, max_reps, 130, 300))])
        elif r < 0.70:
            ops.append(["encn", ci, rng.choice((ii, -1))])
        elif r < 0.76:
            ops.append(["decn", ci, rng.choice((ii, -1))])
        elif r < 0.84:
            ops.append(["encbad", ci, ii, rng.getrandbits(32)])
        elif r < 0.90:
            ops.append(["decfwd", ci, ii, rng.choice((7, 100, 127, 128, 16383, 2**31 - 1)), rng.randbytes(rng.choice((0, 1, 5, 130))).hex()])
            ops.append(["enc", ci, ii, 1, True])
        else:
            ops.append(["decbad", ci, ii, rng.choice(("cut", "flip")), rng.getrandbits(16)])
    return ops


# ---- H: histories -------------------------------------------------------------------


def _history_child(wl_json: dict, gold: list, ops: list) -> list:
    wl = Workload.from_json(wl_json)
    wl.gold = gold
    cache: dict = {}
    for i, op in enumerate(ops):
        sig = exec_op(op, wl, cache)
        if sig is not None:
            return [i, "H:" + sig]
    return [len(ops), None]


def run_history(wl: Workload, ops: list):
    return forkrun.run(_history_child, wl.to_json(), wl.gold, ops)


# ---- F: failures at every call index ----------------------------------------------------


def _indices(rng, n: int, cap: int) -> list[int]:
    if n <= cap:
        return list(range(n))
    s = set(rng.sample(range(n), cap - 2))
    s.update((0, n - 1))
    return sorted(s)


def _after_check(wl: Workload, ci: int, ii: int, others: list, cache: dict, full: bool, in_thread: bool,
                 block_s: float = 20.0) -> str | None:
    """After a failed call: the same cached closure (and a freshly requested
    one - the cache hands out the same object) must still produce goldens."""
    todo = [["enc", ci, ii, 1], ["dec", ci, ii, 1]]
    # a different message of the SAME class through the same cached closure: state
    # left behind by the failed call shows when the next message lacks what the last one had
    for j in range(len(wl.gold[ci])):
        if j != ii and wl.gold[ci][j] is not None:
            todo += [["dec", ci, j, 1], ["enc", ci, j, 1]]
    if full:
        todo += [[k, c, i, 1] for (c, i) in others for k in ("enc", "dec")]

    res: list = []

    def go():
        for op in todo:
            s = exec_op(op, wl, cache)
            if s is not None:
                res.append(s)
                return

    if in_thread:
        th = threading.Thread(target=go, daemon=True)
        th.start()
        th.join(timeout=block_s)
        if th.is_alive():
            return "blocked-forever"
    else:
        try:
            with core.wall_backstop(int(block_s)):
                go()
        except core.SimWallAlarm:
            return "blocked-forever"
    return res[0] if res else None


def _clear_caches() -> None:
    """Cold start for the documented caches (functools.cache).  A codec that
    keeps its own memo cannot be reset this way - then the state simply
    persists, which is what the after-checks would expose."""
    from kio.serial import entity_reader, entity_writer

    for fn in (entity_reader, entity_writer):
        clear = getattr(fn, "cache_clear", None)
        if clear is not None:
            clear()


def _faults_child(wl_json: dict, gold: list, ci: int, ii: int, others: list, plan_seed: int, only: list | None,
                  group: str = "io") -> dict:
    """Sweep (or, with ``only``, replay one) fault point for instance (ci, ii).
    ``only`` = [phase, index, inject_kind].  Two groups, each in its own fork:
    "io" (errors raised by the stream: they unwind through Python code, every
    with-block and finally runs) and "async" (interrupts raised between two
    lines, where CPython itself cannot guarantee that a ``with lock:`` is left
    cleanly - a call that blocks forever afterwards is therefore only a probe
    there, while after an I/O error it is a violation)."""
    if only is not None:
        group = "io" if only[0] in ("write", "read") else "async"
    from kio.serial import entity_reader, entity_writer

    wl = Workload.from_json(wl_json)
    wl.gold = gold
    rng = core.random.Random(plan_seed)
    cls = universe.by_name(wl.pool[ci])
    inst = gen.from_tree(wl.trees[ci][ii])
    data, _dec, W, R = gold[ci][ii]
    cache: dict = {(ci, ii): inst}
    st = core.Stats()
    fail = None

    def done(phase, idx, kind, sig):
        return {"fail": {"phase": phase, "index": idx, "kind": kind, "signature": "F:" + sig}, "stats": dict(st)}

    # -- cold construction interrupted at line step j (before anything is cached)
    def build_w():
        entity_writer(cls)

    def build_r():
        entity_reader(cls)

    def blocked_async(sig):
        if sig == "blocked-forever":
            st.inc("probe_blocked_after_async_interrupt")
            return True
        return False

    if group == "async" and (only is None or only[0] in ("cold-w", "cold-r")):
        for phase, fn in (("cold-w", build_w), ("cold-r", build_r)):
            if only is not None and only[0] != phase:
                continue
            _clear_caches()
            n_build, _r, exc = steps.count_steps(fn)
            if exc is not None:
                return done(phase, -1, "none", f"clean-build-raised:{type(exc).__name__}")
            js = [only[1]] if only is not None else _indices(rng, n_build, 24)
            for j in js:
                _clear_caches()
                n_ran, _res, exc, where = steps.run_with_interrupt(fn, j + 1)
                st.inc("fault_interrupt_during_build")
                if not isinstance(exc, steps.SimInterrupt) and n_ran >= j + 1:
                    st.inc("probe_interrupt_swallowed_or_replaced")
                sig = _after_check(wl, ci, ii, others, cache, full=True, in_thread=False, block_s=5)
                if blocked_async(sig):
                    return {"fail": None, "stats": dict(st)}
                if sig is not None:
                    return done(phase, j, "interrupt", "after-build-interrupt:" + sig)
    try:
        w = entity_writer(cls)
        r = entity_reader(cls)
    except Exception as e:  # noqa: BLE001
        return done("warm-up", -1, "none", f"creating-codec-raised-after-cold-phase:{type(e).__name__}")
    # -- I/O error raised by the sink at write call i
    if group == "io" and (only is None or only[0] == "write"):
        idxs = [only[1]] if only is not None else _indices(rng, W, 400)
        for n_, i in enumerate(idxs):
            kind = only[2] if only is not None else INJECT_W[rng.randrange(len(INJECT_W))]
            exc = streams.make_injected(kind, i)
            sink = streams.SimSink(fail_at=i, fail_exc=exc, retain=False)
            st.inc(f"fault_write_{kind}")
            try:
                w(sink, inst)
                got = None
            except BaseException as e:  # noqa: BLE001
                got = e
            # (what the failing call itself raises is not C19's statement - C07 judges that;
            # here it is only counted)
            if i < W and not streams.same_or_chained(got, exc):
                st.inc("probe_write_fault_swallowed_or_replaced")
            full = (n_ % 8 == 0) or n_ == len(idxs) - 1
            # first while the caller still holds the exception (a retry inside the except block:
            # the traceback keeps the failed call's frames and whatever they reference alive) ...
            sig = _after_check(wl, ci, ii, others, cache, full=full, in_thread=(n_ % 16 == 5))
            if sig is not None:
                return done("write", i, kind, "after-write-fault:" + sig)
            if full:
                # ... then again after the exception has been dropped
                got = exc = sink.fail_exc = None
                sig = _after_check(wl, ci, ii, others, cache, full=True, in_thread=False)
                if sig is not None:
                    return done("write", i, kind, "after-write-fault(exception dropped):" + sig)
    # -- I/O error raised by the source at read call i
    if group == "io" and (only is None or only[0] == "read"):
        idxs = [only[1]] if only is not None else _indices(rng, R, 400)
        for n_, i in enumerate(idxs):
            kind = only[2] if only is not None else INJECT_R[rng.randrange(len(INJECT_R))]
            exc = streams.make_injected(kind, i)
            src = streams.SimSource(data, fail_at=i, fail_exc=exc)
            st.inc(f"fault_read_{kind}")
            try:
                r(src)
                got = None
            except BaseException as e:  # noqa: BLE001
                got = e
            if i < R and not streams.same_or_chained(got, exc):
                st.inc("probe_read_fault_swallowed_or_replaced")
            full = (n_ % 8 == 0) or n_ == len(idxs) - 1
            sig = _after_check(wl, ci, ii, others, cache, full=full, in_thread=(n_ % 16 == 5))
            if sig is not None:
                return done("read", i, kind, "after-read-fault:" + sig)
    # -- asynchronous interrupt at kio line step j of a warm encode / decode
    for phase, fn in (("int-w", lambda: w(streams.SimSink(retain=False), inst)), ("int-r", lambda: r(streams.SimSource(data)))):
        if group != "async" or (only is not None and only[0] != phase):
            continue
        n_steps, _res, exc = steps.count_steps(fn)
        js = [only[1]] if only is not None else _indices(rng, n_steps, 160)
        for n_, j in enumerate(js):
            n_ran, _res, exc, where = steps.run_with_interrupt(fn, j + 1)
            st.inc("fault_interrupt_" + ("encode" if phase == "int-w" else "decode"))
            if not isinstance(exc, steps.SimInterrupt) and n_ran >= j + 1:
                st.inc("probe_interrupt_swallowed_or_replaced")
            if where and "write_tagged_field" in str(where):
                st.inc("probe_interrupt_inside_tagged_scratch")
            full = (n_ % 8 == 0) or n_ == len(js) - 1
            sig = _after_check(wl, ci, ii, others, cache, full=full, in_thread=False, block_s=5)
            if blocked_async(sig):
                return {"fail": None, "stats": dict(st)}
            if sig is not None:
                return done(phase, j, "interrupt", "after-interrupt:" + sig)
    if group == "io":
        st.inc("fault_points_W", W)
        st.inc("fault_points_R", R)
    return {"fail": fail, "stats": dict(st)}


# ---- T: thread interleavings ---------------------------------------------------------------


_STALL_TIMEOUT = [1.0]  # lowered (per worker) once a tree turns out to block, see Scheduler


def _threads_child(wl_json: dict, gold: list, programs: list, policy: dict, sched_seed: int, forced: list | None,
                   step_cap: int) -> dict:
    wl = Workload.from_json(wl_json)
    wl.gold = gold
    results: dict[int, list] = {}

    def mk(ti, prog):
        def body():
            cache: dict = {}
            out = results.setdefault(ti, [])
            for i, op in enumerate(prog):
                sig = exec_op(op, wl, cache)
                out.append(sig)
                if sig is not None:
                    return
        return body

    sch = Scheduler(core.random.Random(sched_seed), policy, step_cap, forced, stall_timeout=_STALL_TIMEOUT[0])
    sch.run([mk(ti, prog) for ti, prog in enumerate(programs)])
    fail = None
    if sch.deadlock:
        fail = {"thread": -1, "op": -1, "signature": "T:threads-blocked-forever"}
    for ti in sorted(results):
        for i, sig in enumerate(results[ti]):
            if sig is not None and fail is None:
                fail = {"thread": ti, "op": i, "signature": "T:" + sig}
    for ti in sorted(sch.errors):
        e = sch.errors[ti]
        if fail is None:
            if isinstance(e, StepCapExceeded):
                fail = {"thread": ti, "op": -1, "signature": "T:step-cap-exceeded"}
            else:
                fail = {"thread": ti, "op": -1, "signature": f"T:harness-or-unexpected:{type(e).__name__}:{e}"}
    unfinished = [ti for ti, prog in enumerate(programs) if len(results.get(ti, [])) < len(prog)]
    if fail is None and unfinished and not sch.deadlock:
        fail = {"thread": unfinished[0], "op": -1, "signature": "T:thread-did-not-finish"}
    import hashlib

    inter = hashlib.sha256(core.canon([sch.schedule, sch.switch_sites]).encode()).hexdigest()[:16]
    return {"fail": fail, "schedule": sch.schedule, "steps": sch.steps, "switches": sum(1 for s in sch.schedule if len(s) == 2),
            "stalls": sch.stalls, "undetermined": sch.undetermined,
            "probes": sch.probes, "interleaving": inter, "sites": sch.switch_sites[:8]}


def _note_stalls(res: dict, stats) -> None:
    if res.get("undetermined"):
        stats.inc("runs_finished_only_without_baton_discipline")
    if res.get("stalls"):
        stats.inc("blocking_stalls_resolved_by_monitor", res["stalls"])
        _STALL_TIMEOUT[0] = 0.02  # this tree blocks: do not wait a full second each time


def _dryrun_child(wl_json: dict, gold: list, programs: list) -> int:
    wl = Workload.from_json(wl_json)
    wl.gold = gold

    def all_of_it():
        for prog in programs:
            cache: dict = {}
            for op in prog:
                exec_op(op, wl, cache)

    n, _r, _e = steps.count_steps(all_of_it)
    return n


def gen_programs(rng, wl: Workload) -> list[list]:
    nthreads = rng.choice((2, 2, 3, 3, 4))
    usable = wl.usable()
    shared = [rng.choice(usable) for _ in range(rng.randint(1, 3))]
    programs = []
    for _ in range(nthreads):
        prog = []
        for _ in range(rng.randint(2, 6)):
            ci, ii = rng.choice(shared) if rng.random() < 0.7 else rng.choice(usable)
            r = rng.random()
            if r < 0.1:
                prog.append(["mkr", ci, rng.random() < 0.3])
            elif r < 0.2:
                prog.append(["mkw", ci, rng.random() < 0.3])
            elif r < 0.55:
                prog.append(["enc", ci, ii, 1, rng.random() < 0.3])
            elif r < 0.84:
                prog.append(["dec", ci, ii, 1])
            elif r < 0.9:
                # a forward-compatible message (unknown tagged field) decoded in a non-main thread
                prog.append(["decfwd", ci, ii, rng.choice((7, 100, 127, 128, 16383)), rng.randbytes(rng.choice((0, 1, 5, 130))).hex()])
            elif r < 0.95:
                prog.append(["encbad", ci, ii, rng.getrandbits(32)])
            else:
                prog.append(["decbad", ci, ii, "cut", rng.getrandbits(16)])
        programs.append(prog)
    return programs


def step_cap_for(wl: Workload, programs: list, opcodes: bool) -> int:
    """Generous bound on the kio line steps a set of programs may need: proportional to the
    bytes they encode/decode (a 16 384-element array alone is ~10^5 steps), never a verdict
    on a tree that is merely slower."""
    total = 0
    for prog in programs:
        for op in prog:
            if len(op) > 2 and isinstance(op[2], int) and op[2] >= 0 and wl.gold[op[1]][op[2]] is not None:
                reps = op[3] if op[0] in ("enc", "dec") and len(op) > 3 and isinstance(op[3], int) else 1
                total += len(wl.gold[op[1]][op[2]][0]) * max(1, reps)
    cap = 400_000 + 40 * total
    return cap * 12 if opcodes else cap


def draw_policy(rng, wl: Workload, programs: list) -> tuple[dict, int]:
    r = rng.random()
    if r < 0.2:
        # bytecode granularity (finer than the property's source-line granularity)
        p = rng.choice((0.002, 0.01, 0.05))
        return {"kind": "random-opcode", "p": p, "opcodes": True}, 0
    if r < 0.6:
        p = rng.choice((0.005, 0.02, 0.1, 0.3))
        return {"kind": "random", "p": p}, 0
    n = forkrun.run(_dryrun_child, wl.to_json(), wl.gold, programs)
    d = rng.choice((1, 2, 3))
    pts = sorted(rng.sample(range(1, max(2, n)), min(d, max(1, n - 1))))
    return {"kind": "pct", "p": 0.0, "points": pts, "d": d}, n


# ---- task runner ------------------------------------------------------------------------------


def run_task(task: dict) -> dict:
    stats = core.Stats()
    log = core.Log()
    violations = []
    vcount: dict = {}
    samples = []
    distinct = set()
    runs = 0
    layer = task["layer"]

    def report(sig, run_seed, scenario):
        vcount[sig] = vcount.get(sig, 0) + 1
        stats.inc("violating_runs")
        if vcount[sig] <= 2:
            violations.append({"signature": sig, "run_seed": run_seed, "scenario": scenario})

    for idx in range(task["first"], task["first"] + task["count"]):
        core.gc_tick()
        run_seed = core.derive_seed(PROP, task["seed"], layer, idx)
        rng = core.random.Random(run_seed)
        runs += 1
        stats.inc(f"runs_{layer}")
        if layer == "H":
            wl = make_workload(rng, stats)
            ops = gen_ops(rng, wl, rng.randint(8, 40))
            if not ops:
                continue
            ops_b = list(ops)
            rng.shuffle(ops_b)
            for tag, seq in (("a", ops), ("b", ops_b)):
                n_done, sig = run_history(wl, seq)
                stats.inc("history_forks")
                stats.inc("evaluations", n_done)
                stats.inc("ops_executed", n_done)
                distinct.add(core.canon([wl.pool, seq]))
                if sig is not None:
                    report(sig, run_seed, {"layer": "H", "workload": wl.to_json(), "ops": seq[: n_done + 1]})
                log.add("H", idx, tag, len(seq), n_done, sig)
            for op in ops:
                stats.inc(f"op_{op[0]}")
                if op[0] in ("enc", "dec") and op[3] >= 50:
                    stats.inc("probe_closure_reused_50x")
            if len(samples) < 1:
                samples.append({"layer": "H", "pool": wl.pool, "ops_order_a": ops[:12], "ops_order_b": ops_b[:12]})
        elif layer == "F":
            wl = make_workload(rng, stats, lo=3, hi=6)
            usable = wl.usable()
            if not usable:
                continue
            for _ in range(2):
                ci, ii = rng.choice(usable)
                others = [u for u in usable if u != (ci, ii)]
                rng.shuffle(others)
                others = others[:3]
                plan_seed = rng.getrandbits(48)
                res = forkrun.run(_faults_child, wl.to_json(), wl.gold, ci, ii, others, plan_seed, None, "io", timeout_s=900)
                if res["fail"] is None:
                    res2 = forkrun.run(_faults_child, wl.to_json(), wl.gold, ci, ii, others, plan_seed, None, "async", timeout_s=900)
                    res = {"fail": res2["fail"], "stats": {k: res["stats"].get(k, 0) + res2["stats"].get(k, 0)
                                                           for k in set(res["stats"]) | set(res2["stats"])}}
                stats.merge(res["stats"])
                n_faults = sum(v for k, v in res["stats"].items() if k.startswith("fault_") and not k.startswith("fault_points"))
                stats.inc("evaluations", n_faults)
                distinct.add(core.canon([wl.pool[ci], wl.trees[ci][ii]]))
                stats.inc("distinct_fault_points", n_faults)
                f = res["fail"]
                if f is not None:
                    report(f["signature"], run_seed, {"layer": "F", "workload": wl.to_json(), "ci": ci, "ii": ii, "others": others,
                                                      "plan_seed": plan_seed, "only": [f["phase"], f["index"], f["kind"]]})
                log.add("F", idx, wl.pool[ci], ii, n_faults, f and f["signature"])
                if len(samples) < 1:
                    samples.append({"layer": "F", "class": wl.pool[ci], "write_calls": wl.gold[ci][ii][2], "read_calls": wl.gold[ci][ii][3],
                                    "faults_injected": n_faults, "siblings_checked_after_each_8th_fault": [wl.pool[c] for c, _ in others]})
        elif layer == "S":
            # systematic single-pre-emption sweep: thread A makes the FIRST use of a cold
            # codec and is pre-empted at line step j; thread B then makes a complete
            # first use of the same codec; A resumes.  Every j (sampled when large).
            r = rng.random()
            if r < 0.3:
                cls = rng.choice(_nullable_struct_classes())
            elif r < 0.6:
                cls = rng.choice([c for c in universe.load() if universe.has_tagged_fields(c)])
            elif r < 0.7:
                cls = rng.choice(_float_classes())
            else:
                cls = rng.choice(universe.load())
            shape = {**gen.draw_shape(rng), "null_rate": 0.1, "nondefault_rate": 0.9}
            if shape["name"] in ("big", "long_array", "huge"):
                shape = {**shape, "str": "small", "long_arrays": 0}
            trees = [[gen.to_tree(gen.gen_instance(rng, cls, shape)) for _ in range(2)]]
            wl = Workload([universe.qualname(cls)], trees)
            wl.compute_goldens(stats)
            if wl.gold[0][0] is None:
                continue
            ii_b = 1 if wl.gold[0][1] is not None and rng.random() < 0.5 else 0
            op_a = [rng.choice(("enc", "dec")), 0, 0, 1]
            op_b = [op_a[0] if rng.random() < 0.6 else rng.choice(("enc", "dec")), 0, ii_b, 1]
            programs = [[op_a], [op_b]]
            n_a = forkrun.run(_dryrun_child, wl.to_json(), wl.gold, [[op_a]])
            cap = 200 if task.get("tier", "quick") == "quick" else 1500
            js = _indices(rng, n_a, cap)
            found = None
            for j in js:
                forced = [[-1, 0, "start"], [j + 1, 1], [0, 0, "exit"]]
                res = forkrun.run(_threads_child, wl.to_json(), wl.gold, programs, {"kind": "forced", "p": 0.0}, 0, forced,
                                  step_cap_for(wl, programs, False))
                _note_stalls(res, stats)
                stats.inc("evaluations")
                stats.inc("sweep_preemption_points")
                stats.inc("thread_steps", res["steps"])
                stats.inc("thread_switches", 1)
                distinct.add((wl.pool[0], op_a[0], op_b[0], j))
                if res["fail"] is not None and found is None:
                    found = (j, res["fail"])
                    break
            stats.inc("sweeps")
            stats.inc("sweep_points_all" if len(js) == n_a else "sweep_points_sampled")
            if found is not None:
                j, f = found
                report(f["signature"], run_seed, {"layer": "T", "workload": wl.to_json(), "programs": programs,
                                                            "schedule": [[-1, 0, "start"], [j + 1, 1], [0, 0, "exit"]],
                                                            "step_cap": step_cap_for(wl, programs, False)})
            log.add("S", idx, wl.pool[0], op_a[0], op_b[0], n_a, len(js), found and [found[0], found[1]["signature"]])
            if len(samples) < 1:
                samples.append({"layer": "S", "class": wl.pool[0], "thread_A_first_use": op_a[0], "thread_B_complete_first_use": op_b[0],
                                "line_steps_of_A": n_a, "preemption_points_tried": len(js)})
        else:
            wl = make_workload(rng, stats, lo=2, hi=5)
            if not wl.usable():
                continue
            programs = gen_programs(rng, wl)
            policy, dry = draw_policy(rng, wl, programs)
            if _STALL_TIMEOUT[0] < 1.0 and policy.get("p", 0.0) > 0.01:
                # this tree blocks on locks: every pre-emption inside a locked region costs a
                # monitor time-out, so pre-empt less often (most of those interleavings cannot happen anyway)
                policy = {**policy, "p": 0.01}
                stats.inc("policy_throttled_because_tree_blocks")
            sched_seed = rng.getrandbits(48)
            step_cap = step_cap_for(wl, programs, bool(policy.get("opcodes")))
            res = forkrun.run(_threads_child, wl.to_json(), wl.gold, programs, policy, sched_seed, None, step_cap, timeout_s=900)
            _note_stalls(res, stats)
            stats.inc("evaluations")
            stats.inc("thread_steps", res["steps"])
            stats.inc("thread_switches", res["switches"])
            stats.inc(f"policy_{policy['kind']}")
            if policy.get("opcodes"):
                stats.inc("thread_steps_opcode_granularity", res["steps"])
            for k, v in res["probes"].items():
                stats.inc("probe_" + k, v)
            if res["switches"] > 0:
                distinct.add(res["interleaving"])
            f = res["fail"]
            if f is not None:
                report(f["signature"].split(":harness-or-unexpected:")[0] if False else f["signature"], run_seed,
                       {"layer": "T", "workload": wl.to_json(), "programs": programs, "schedule": res["schedule"], "step_cap": step_cap,
                        "opcodes": bool(policy.get("opcodes"))})
            log.add("T", idx, len(programs), policy["kind"], res["steps"], res["switches"], res["interleaving"], f and f["signature"])
            if len(samples) < 1:
                samples.append({"layer": "T", "pool": wl.pool, "programs": programs, "policy": policy, "steps": res["steps"],
                                "schedule_taken": res["schedule"][:20], "first_switch_sites": res["sites"]})
    stats.inc(f"distinct_{layer}", len(distinct))
    return {"stats": dict(stats), "digest": log.digest(), "violations": violations, "samples": samples,
            "distinct": len(distinct), "runs": runs}


# ---- replay / shrink ---------------------------------------------------------------------------


def evaluate(scenario: dict):
    wl = Workload.from_json(scenario["workload"])
    wl.compute_goldens()
    layer = scenario["layer"]
    if layer == "H":
        _n, sig = run_history(wl, scenario["ops"])
        return sig
    if layer == "F":
        ci, ii = scenario["ci"], scenario["ii"]
        if wl.gold[ci][ii] is None:
            return None
        res = forkrun.run(_faults_child, wl.to_json(), wl.gold, ci, ii, [tuple(o) for o in scenario["others"]],
                          scenario["plan_seed"], scenario["only"], "io", timeout_s=900)
        return res["fail"]["signature"] if res["fail"] else None
    if layer == "T":
        if any(wl.gold[op[1]][op[2]] is None for prog in scenario["programs"] for op in prog if len(op) > 2 and isinstance(op[2], int) and op[2] >= 0
               and op[0] in ("enc", "dec")):
            return None
        res = forkrun.run(_threads_child, wl.to_json(), wl.gold, scenario["programs"],
                          {"kind": "forced", "p": 0.0, "opcodes": bool(scenario.get("opcodes"))}, 0,
                          scenario["schedule"],
                          max(scenario.get("step_cap", 0), step_cap_for(wl, scenario["programs"], bool(scenario.get("opcodes")))),
                          timeout_s=600)
        return res["fail"]["signature"] if res["fail"] else None
    return None


def _used_classes(scenario: dict) -> set[int]:
    used = set()
    if scenario["layer"] == "H":
        used = {op[1] for op in scenario["ops"]}
    elif scenario["layer"] == "T":
        used = {op[1] for prog in scenario["programs"] for op in prog}
    else:
        used = {scenario["ci"]} | {o[0] for o in scenario["others"]}
    return used


def candidates(scenario: dict):
    layer = scenario["layer"]
    if layer == "H":
        ops = scenario["ops"]
        n = len(ops)
        size = n // 2
        while size >= 1:
            for start in range(0, n - 1, size):  # never drop the last (failing) op
                cand = ops[:start] + ops[min(n - 1, start + size):]
                if len(cand) < n:
                    yield {**scenario, "ops": cand}
            size //= 2
        for i, op in enumerate(ops):
            if op[0] in ("enc", "dec") and op[3] > 1:
                yield {**scenario, "ops": ops[:i] + [[op[0], op[1], op[2], 1] + list(op[4:])] + ops[i + 1:]}
    elif layer == "T":
        progs = scenario["programs"]
        sched = scenario["schedule"]
        # fewer switch points
        sw = [s for s in sched if len(s) == 2]
        for i in range(len(sched)):
            if len(sched[i]) == 2:
                yield {**scenario, "schedule": sched[:i] + sched[i + 1:]}
        # shorter programs (schedule positions shift, so this only sometimes keeps the failure)
        for ti, prog in enumerate(progs):
            for i in range(len(prog)):
                yield {**scenario, "programs": progs[:ti] + [prog[:i] + prog[i + 1:]] + progs[ti + 1:]}
    elif layer == "F":
        if scenario["others"]:
            yield {**scenario, "others": scenario["others"][:-1]}
    # simpler instances for the classes that matter
    wl = scenario["workload"]
    used = _used_classes(scenario)
    for ci in sorted(used):
        for ii, t in enumerate(wl["trees"][ci]):
            for k, cand in enumerate(gen.tree_candidates(t)):
                if k > 40:
                    break
                trees = [list(ts) for ts in wl["trees"]]
                trees[ci][ii] = cand
                yield {**scenario, "workload": {"pool": wl["pool"], "trees": trees}}


# ---- evidence ------------------------------------------------------------------------------------


def finalize(stats, tier, runs, distinct, samples, wall):
    coverage = {
        "evaluations": stats.get("evaluations", 0) or 0,
        "distinct_nontrivial": distinct + stats.get("distinct_fault_points", 0),
        "rule": "H: one evaluation = one op of a history executed in a fresh fork and compared with the isolated golden (distinct = distinct (pool, op list)); "
                "F: one evaluation = one injected fault (I/O error at write/read call index i, interrupt at line step j warm or during cold closure construction) "
                "followed by golden re-checks (distinct = fault points, each a distinct (instance, phase, index)); "
                "S: one evaluation = thread A pre-empted at line step j of its first (cold) use of a codec while thread B makes a complete first use of the same codec - every j per sweep, sampled above a cap (distinct = (class, ops, j)); "
                "T: one evaluation = one scheduled multi-thread run from cold caches (distinct = distinct hashes of the switch sequence (step, thread, file:line); non-trivial = at least one pre-emption)",
        "samples": samples,
        "exhaustive": False,
        "runs_by_layer": {k[5:]: v for k, v in sorted(stats.items()) if k.startswith("runs_")},
        "ops_executed_in_histories": stats.get("ops_executed", 0),
        "ops_by_kind": {k: v for k, v in sorted(stats.items()) if k.startswith("op_")},
        "faults_fired": {k: v for k, v in sorted(stats.items()) if k.startswith("fault_")},
        "thread_steps": stats.get("thread_steps", 0),
        "thread_switches": stats.get("thread_switches", 0),
        "distinct_histories": stats.get("distinct_H", 0),
        "distinct_fault_points": stats.get("distinct_fault_points", 0),
        "distinct_interleavings": stats.get("distinct_T", 0),
        "distinct_interleavings_measure": "sha256 of the switch list [(step index, next thread)] + first 64 switch sites (file:line)",
        "policies": {k: v for k, v in sorted(stats.items()) if k.startswith("policy_")},
        "systematic_sweeps": {"sweeps": stats.get("sweeps", 0), "preemption_points": stats.get("sweep_preemption_points", 0),
                              "sweeps_with_every_point": stats.get("sweep_points_all", 0), "sweeps_sampled": stats.get("sweep_points_sampled", 0)},
        "probes": {k: v for k, v in sorted(stats.items()) if k.startswith("probe_")},
        "forks": {"golden": stats.get("golden_forks", 0), "history": stats.get("history_forks", 0)},
        "discarded_by_prepass": stats.get("discarded_by_prepass", 0),
        "simulated_time_s": 0,
        "simulated_time_note": "no clock: thread time is measured in kio line steps (thread_steps)",
        "seeds_per_hour": int(runs / wall * 3600) if wall else 0,
    }
    assumptions = [
        "the oracle is the isolated golden computed by the same code in a fresh fork with only T touched: a uniformly wrong codec is C02's business, a history-dependent one is ours",
        "thread pre-emption is at source-line granularity inside kio's own non-schema files; races inside one bytecode line, functools.cache's C code, dataclasses or typing are not explored",
        "asynchronous interrupts are raised from the trace function at line events (what KeyboardInterrupt does between bytecodes)",
    ]
    problems = []
    n_gold = stats.get("golden_forks", 0)
    if stats.get("discarded_by_prepass", 0) > max(10, n_gold):
        problems.append(f"FATAL: {stats.get('discarded_by_prepass')} instances did not survive the isolated clean round trip "
                        f"({n_gold} classes prepared): this check cannot judge this tree")
    need = ["probe_concurrent_same_class_build", "probe_switch_inside_tagged_scratch", "probe_closure_reused_50x",
            "fault_interrupt_during_build", "fault_interrupt_encode", "fault_interrupt_decode"]
    for p in need:
        if not stats.get(p):
            problems.append(f"probe {p} never fired")
    return coverage, assumptions, problems
