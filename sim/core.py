"""Shared plumbing: source root, seeds, event logs, worker pool, evidence,
known findings, replay files.

Nothing in here draws from a PRNG or reads a clock in a decision path; wall
time is measured only for the evidence file.
"""

from __future__ import annotations

import concurrent.futures
import faulthandler
import hashlib
import json
import multiprocessing
import os
import random
import resource
import signal
import sys
import time
import traceback
import types

VERIF = os.path.dirname(os.path.dirname(os.path.abspath(__file__)))
SRC = os.environ.get("KIO_VERIF_SRC", "/repo/src")
DEFAULT_SEED = 20260926
EVIDENCE_DIR = os.environ.get("KIO_VERIF_EVIDENCE_DIR", os.path.join(VERIF, "evidence"))
REPLAY_DIR = os.environ.get("KIO_VERIF_REPLAY_DIR", os.path.join(VERIF, "replays"))
KNOWN_FINDINGS = os.path.join(VERIF, "known_findings.json")

EXIT_OK = 0
EXIT_VIOLATION = 1
EXIT_HARNESS = 2


class HarnessError(Exception):
    """Something went wrong inside the simulator itself (never a verdict)."""


# --------------------------------------------------------------------------
# importing kio from the working tree


def import_kio() -> None:
    """Put SRC first on sys.path and make ``import kio`` work from there.

    ``kio/_version.py`` is a git-ignored setuptools-scm artefact that
    ``kio/__init__`` imports; after a fresh restore it may be missing.  We do
    not write into the source tree: a stand-in module is registered instead.
    """
    if sys.path[0] != SRC:
        sys.path.insert(0, SRC)
    if not os.path.exists(os.path.join(SRC, "kio", "_version.py")):
        mod = types.ModuleType("kio._version")
        mod.__version__ = mod.version = "0+verif"
        mod.__version_tuple__ = mod.version_tuple = (0, "verif")
        sys.modules.setdefault("kio._version", mod)
    import kio  # noqa: F401
    # everything is imported up front: no simulated thread may ever be parked
    # while holding an import lock
    import kio.records.readers  # noqa: F401
    import kio.records.writers  # noqa: F401
    import kio.serial  # noqa: F401
    from . import universe

    universe.load()

    got = os.path.dirname(os.path.abspath(kio.__file__))
    want = os.path.join(os.path.abspath(SRC), "kio")
    if got != want:
        raise HarnessError(f"kio imported from {got}, expected {want}")


# --------------------------------------------------------------------------
# seeds


def derive_seed(*parts: object) -> int:
    h = hashlib.sha256("\x1f".join(str(p) for p in parts).encode()).digest()
    return int.from_bytes(h[:8], "big")


def rng_for(*parts: object) -> random.Random:
    return random.Random(derive_seed(*parts))


def base_seed(cli_seed: int | None) -> int:
    if cli_seed is not None:
        return cli_seed
    env = os.environ.get("VERIF_SEED")
    if env not in (None, ""):
        try:
            return int(env)
        except ValueError:
            return derive_seed("env", env)
    return DEFAULT_SEED


# --------------------------------------------------------------------------
# event log


def canon(obj: object) -> str:
    return json.dumps(obj, sort_keys=True, separators=(",", ":"), default=_json_default)


def _json_default(o: object) -> object:
    if isinstance(o, (bytes, bytearray, memoryview)):
        return {"hex": bytes(o).hex()}
    if isinstance(o, tuple):
        return list(o)
    if isinstance(o, (set, frozenset)):
        return sorted(o)
    raise TypeError(f"not loggable: {type(o)!r}")


class Log:
    """Append-only event log of plain tuples; digest is order-sensitive."""

    __slots__ = ("_h", "n", "keep", "events")

    def __init__(self, keep: int = 0) -> None:
        self._h = hashlib.sha256()
        self.n = 0
        self.keep = keep
        self.events: list = []

    def add(self, *event: object) -> None:
        s = canon(event)
        self._h.update(s.encode())
        self._h.update(b"\n")
        self.n += 1
        if len(self.events) < self.keep:
            self.events.append(event)

    def digest(self) -> str:
        return self._h.hexdigest()


def combine_digests(digests) -> str:
    h = hashlib.sha256()
    for d in digests:
        h.update(d.encode())
    return h.hexdigest()


# --------------------------------------------------------------------------
# counters that merge


class Stats(dict):
    def inc(self, key: str, n: int = 1) -> None:
        self[key] = self.get(key, 0) + n

    def merge(self, other: dict) -> None:
        for k, v in other.items():
            if isinstance(v, (int, float)):
                self[k] = self.get(k, 0) + v
            elif isinstance(v, dict):
                sub = self.setdefault(k, Stats())
                Stats.merge(sub, v)

    def maxi(self, key: str, v) -> None:
        if v > self.get(key, v - 1):
            self[key] = v


def sorted_dict(d: dict) -> dict:
    out = {}
    for k in sorted(d):
        v = d[k]
        out[k] = sorted_dict(v) if isinstance(v, dict) else v
    return out


# --------------------------------------------------------------------------
# worker pool: tasks are picklable dicts, results are merged IN TASK ORDER so
# that nothing depends on the number of workers or on completion order.


def n_workers() -> int:
    env = os.environ.get("KIO_VERIF_WORKERS")
    if env:
        return max(1, int(env))
    return max(1, min(16, os.cpu_count() or 1))


def _limit_memory(gib: float) -> None:
    try:
        lim = int(gib * (1 << 30))
        resource.setrlimit(resource.RLIMIT_AS, (lim, lim))
    except (ValueError, OSError):
        pass


def _worker_init(mem_gib: float, wall_s: int) -> None:
    if mem_gib:
        _limit_memory(mem_gib)
    faulthandler.enable()
    faulthandler.register(signal.SIGUSR1, all_threads=True)
    if wall_s:
        faulthandler.dump_traceback_later(wall_s, exit=True)


# Environment swarm: every task runs under a process environment drawn from its own content
# (so it does not depend on the worker count): the local time zone (POSIX TZ strings, no tzdata
# needed) and the garbage collector's mode.  kio's results must not depend on either; a violation
# records the environment in its scenario ("_env") and replay/shrinking restore it.
ENV_TZ = ("UTC0", "EET-2EEST,M3.5.0/3,M10.5.0/4", "EST5EDT,M3.2.0,M11.1.0", "IST-5:30", "NZST-12NZDT,M9.5.0,M4.1.0/3", "<-11>11")
ENV_GC = ("default", "default", "off", "eager")


def env_for(task: dict) -> dict:
    scen = task.get("scenario") if isinstance(task, dict) else None
    if isinstance(scen, dict) and isinstance(scen.get("_env"), dict):
        return scen["_env"]
    if os.environ.get("KIO_VERIF_NO_ENV_SWARM"):
        return {"tz": ENV_TZ[0], "gc": "default", "optimize": int(sys.flags.optimize)}
    rng = random.Random(derive_seed("env", canon(task)[:4000]))
    return {"tz": rng.choice(ENV_TZ), "gc": rng.choice(ENV_GC), "optimize": int(sys.flags.optimize)}


def apply_env(env: dict) -> None:
    import gc

    os.environ["TZ"] = env.get("tz", ENV_TZ[0])
    time.tzset()
    mode = env.get("gc", "default")
    if mode == "off":
        gc.disable()
    else:
        gc.enable()
        gc.set_threshold(*((60, 3, 3) if mode == "eager" else (700, 10, 10)))


class ThreadUnavailable(Exception):
    """The helper thread could not be started or died before reporting (address space): never a verdict."""


def gc_tick() -> None:
    """Called by the checks between runs: with the collector switched off by the environment swarm,
    cyclic garbage (exception <-> traceback <-> frame, holding input buffers) is reclaimed here, so a
    long task cannot run the worker into its address-space limit.  Inside a run nothing is collected."""
    import gc

    if not gc.isenabled():
        gc.collect()


def call_in_thread(fn, *args):
    """Run fn(*args) in a freshly started thread (not the one that imported kio) and hand its
    result or exception back to the caller."""
    import threading

    box: dict = {}

    def run():
        try:
            box["r"] = fn(*args)
        except BaseException as e:  # noqa: BLE001 - re-raised in the caller
            box["e"] = e

    t = threading.Thread(target=run, name="sim-caller-thread")
    try:
        t.start()
    except (RuntimeError, MemoryError) as e:
        raise ThreadUnavailable(str(e)) from None
    t.join()
    if "e" in box:
        raise box["e"]
    if "r" not in box:
        raise ThreadUnavailable("helper thread ended without a result")
    return box["r"]


def _call(fn_path: str, task: dict):
    mod_name, fn_name = fn_path.rsplit(":", 1)
    mod = sys.modules.get(mod_name)
    if mod is None:
        import importlib

        mod = importlib.import_module(mod_name)
    try:
        env = env_for(task)
        apply_env(env)
        r = getattr(mod, fn_name)(task)
        if isinstance(r, dict):
            if isinstance(r.get("stats"), dict):
                r["stats"]["env_tz_" + env["tz"].split(",")[0]] = r["stats"].get("env_tz_" + env["tz"].split(",")[0], 0) + 1
                r["stats"]["env_gc_" + env["gc"]] = r["stats"].get("env_gc_" + env["gc"], 0) + 1
            for v in r.get("violations") or ():
                if isinstance(v.get("scenario"), dict):
                    v["scenario"].setdefault("_env", env)
        return ("ok", r)
    except BaseException as e:  # noqa: BLE001 - reported as harness error
        return ("err", f"{type(e).__name__}: {e}\n{traceback.format_exc()}")


def run_tasks(fn_path: str, tasks: list[dict], *, mem_gib: float = 8.0, wall_s: int = 3600,
              workers: int | None = None, on_result=None, force_pool: bool = False) -> list:
    """Run ``fn_path`` ("module:function") over tasks; return results in task order."""
    workers = workers or n_workers()
    results: list = [None] * len(tasks)
    if (workers == 1 or len(tasks) <= 1) and not force_pool:
        for i, t in enumerate(tasks):
            st, r = _call(fn_path, t)
            if st == "err":
                raise HarnessError(f"task {i} failed: {r}")
            results[i] = r
            if on_result:
                on_result(i, r)
        return results
    ctx = multiprocessing.get_context("fork")
    with concurrent.futures.ProcessPoolExecutor(
        max_workers=workers, mp_context=ctx, initializer=_worker_init, initargs=(mem_gib, wall_s)
    ) as ex:
        futs = {ex.submit(_call, fn_path, t): i for i, t in enumerate(tasks)}
        try:
            for f in concurrent.futures.as_completed(futs, timeout=wall_s):
                i = futs[f]
                st, r = f.result()
                if st == "err":
                    raise HarnessError(f"task {i} failed: {r}")
                results[i] = r
                if on_result:
                    on_result(i, r)
        except concurrent.futures.process.BrokenProcessPool as e:
            raise HarnessError(f"worker died: {e}") from e
        except concurrent.futures.TimeoutError as e:
            for p in list(getattr(ex, "_processes", {}).values()):
                try:
                    os.kill(p.pid, signal.SIGKILL)
                except OSError:
                    pass
            raise HarnessError("wall-clock limit for the batch exceeded") from e
    return results


# --------------------------------------------------------------------------
# wall-clock backstop for a single case (never a verdict by itself)


class SimWallAlarm(BaseException):
    pass


class wall_backstop:
    def __init__(self, seconds: int) -> None:
        self.seconds = seconds

    def _fire(self, signum, frame):
        raise SimWallAlarm()

    def __enter__(self):
        self._old = signal.signal(signal.SIGALRM, self._fire)
        signal.alarm(self.seconds)
        return self

    def __exit__(self, *exc):
        signal.alarm(0)
        signal.signal(signal.SIGALRM, self._old)
        return False


# --------------------------------------------------------------------------
# where did an exception come from (innermost frame inside kio's sources)


def exc_site(e: BaseException) -> dict | None:
    import linecache

    root = os.path.abspath(SRC) + os.sep
    tb = e.__traceback__
    best = None
    while tb is not None:
        fn = tb.tb_frame.f_code.co_filename
        if fn.startswith(root):
            best = tb
        tb = tb.tb_next
    if best is None:
        return None
    fr = best.tb_frame
    site = {
        "file": os.path.relpath(fr.f_code.co_filename, root),
        "func": fr.f_code.co_name,
        "code": (linecache.getline(fr.f_code.co_filename, best.tb_lineno) or "").strip(),
    }
    nb = fr.f_locals.get("num_bytes", fr.f_locals.get("length"))
    if isinstance(nb, int):
        site["requested"] = int(nb)
    return site


# --------------------------------------------------------------------------
# violations, replay files, known findings


def write_replay(prop: str, run_seed: int, scenario: dict, signature: str, extra: dict | None = None) -> str:
    os.makedirs(REPLAY_DIR, exist_ok=True)
    path = os.path.join(REPLAY_DIR, f"{prop}-{run_seed:016x}.json")
    if os.path.exists(path):
        try:
            with open(path) as f:
                other = json.load(f).get("signature")
        except (OSError, ValueError):
            other = None
        if other != signature:
            # two different violations of one run (same run seed): keep both files
            path = path[:-5] + "-" + hashlib.sha256(str(signature).encode()).hexdigest()[:6] + ".json"
    doc = {"property": prop, "run_seed": run_seed, "signature": signature, "scenario": scenario}
    if extra:
        doc.update(extra)
    with open(path, "w") as f:
        json.dump(doc, f, indent=1, sort_keys=True, default=_json_default)
        f.write("\n")
    return path


def load_replay(path: str) -> dict:
    with open(path) as f:
        return json.load(f)


def load_known_findings(prop: str) -> list[dict]:
    try:
        with open(KNOWN_FINDINGS) as f:
            doc = json.load(f)
    except FileNotFoundError:
        return []
    return [e for e in doc.get("findings", []) if e.get("property") == prop]


# --------------------------------------------------------------------------
# evidence


def write_evidence(prop: str, tier: str, seed: int, level: str, coverage: dict, assumptions: list[str],
                   wall_s: float, violations: int, extra: dict | None = None) -> str:
    os.makedirs(EVIDENCE_DIR, exist_ok=True)
    doc = {
        "property_id": prop,
        "tier": tier,
        "seed": seed,
        "level": level,
        "coverage": coverage,
        "assumptions": assumptions,
        "wall_s": round(wall_s, 3),
        "violations": violations,
    }
    if extra:
        doc.update(extra)
    path = os.path.join(EVIDENCE_DIR, f"{prop}.json")
    tmp = path + ".tmp"
    with open(tmp, "w") as f:
        json.dump(doc, f, indent=1, default=_json_default)
        f.write("\n")
    os.replace(tmp, path)
    # a per-tier copy, so that a quick run does not erase what the last thorough run covered
    tdir = os.path.join(EVIDENCE_DIR, "by-tier", tier)
    os.makedirs(tdir, exist_ok=True)
    with open(os.path.join(tdir, f"{prop}.json"), "w") as f:
        json.dump(doc, f, indent=1, default=_json_default)
        f.write("\n")
    return path


REAL_STUB = {
    "real": [
        "kio.serial (readers, writers, _parse, _serialize, _introspect, _implicit_defaults), kio.records, kio.static, kio.schema - imported from the working tree",
        "functools.cache around entity_reader/entity_writer",
        "io.BytesIO, io.BufferedReader, io.BufferedWriter",
        "asyncio.StreamWriter/StreamReader/StreamReaderProtocol/Task/Future and BaseEventLoop scheduling",
        "threading.Thread (one runs at a time under the baton scheduler)",
    ],
    "stub": [
        "event-loop clock and selector (virtual time)",
        "TCP connection: SimTransport pair + SimNet",
        "raw socket/file under buffered streams: SimRawSource/SimRawSink",
        "read-only / write-only stream objects: SimSource/SimSink",
        "Kafka broker and client protocol loops (kio ships neither); they call the real kio codecs for every byte",
    ],
}


class Timer:
    def __init__(self) -> None:
        self.t0 = time.monotonic()

    def elapsed(self) -> float:
        return time.monotonic() - self.t0
