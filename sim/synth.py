"""User-defined entity classes: subclasses of generated schema classes with one extra field.

kio's readers/writers are derived from the dataclass description alone, so a caller's own
subclass of an entity class is an entity class too.  None of the 1629 generated classes inherit
from one another; these few do, and C19 puts base and subclass into one history.  They are
registered by name with the universe (for replay) but never enter any other check's sampling."""

import importlib
from dataclasses import dataclass, field

from kio.static.primitive import i16, i32

from . import universe

_BASES = (
    ("kio.schema.heartbeat.v4.request", "HeartbeatRequest"),
    ("kio.schema.heartbeat.v0.request", "HeartbeatRequest"),
    ("kio.schema.api_versions.v3.request", "ApiVersionsRequest"),
    ("kio.schema.sasl_handshake.v1.request", "SaslHandshakeRequest"),
    ("kio.schema.find_coordinator.v4.response", "Coordinator"),
)

PAIRS: list[tuple[type, type]] = []


def _make(base: type, idx: int) -> type:
    if base.__flexible__ and idx % 2 == 0:
        ns = {"__annotations__": {"sim_extra": i32}, "sim_extra": field(metadata={"kafka_type": "int32", "tag": 7}, default=i32(0))}
    else:
        ns = {"__annotations__": {"sim_extra": i16}, "sim_extra": field(metadata={"kafka_type": "int16"}, default=i16(0))}
    ns["__module__"] = __name__
    ns["__qualname__"] = f"{base.__name__}Sub{idx}"
    cls = type(f"{base.__name__}Sub{idx}", (base,), ns)
    return dataclass(frozen=True, slots=True, kw_only=True)(cls)


def load() -> list[tuple[type, type]]:
    if PAIRS:
        return PAIRS
    for idx, (mod, name) in enumerate(_BASES):
        base = getattr(importlib.import_module(mod), name)
        sub = _make(base, idx)
        globals()[sub.__name__] = sub
        universe.register(sub)
        PAIRS.append((base, sub))
    return PAIRS
