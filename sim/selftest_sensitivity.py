"""./check selftest-sensitivity [--only ID] [--prop Cxx] [--with-tests] [--tier quick]

Applies each catalogue mutant to a scratch copy of /repo/src (under $TMPDIR,
removed afterwards), optionally confirms that the repository's own unit tests
still pass with it, and runs the property's check against the copy.  A mutant
is *detected* when the check exits 1 with a VIOLATION line."""

from __future__ import annotations

import argparse
import json
import os
import shutil
import subprocess
import sys
import tempfile
import time

from . import core
from .mutants import MUTANTS

UNIT_TESTS = ["tests/serial", "tests/records", "tests/static", "tests/test_index.py"]


def apply(src_root: str, edits) -> None:
    for rel, old, new in edits:
        p = os.path.join(src_root, rel)
        s = open(p).read()
        if s.count(old) != 1:
            raise core.HarnessError(f"mutant edit does not apply exactly once in {rel} ({s.count(old)} matches)")
        open(p, "w").write(s.replace(old, new))


def run_one(m: dict, tier: str, with_tests: bool, keep: bool = False) -> dict:
    tmp = tempfile.mkdtemp(prefix="kio-mut-")
    out = {"id": m["id"], "props": {}, "unit_tests": None}
    try:
        src = os.path.join(tmp, "src")
        shutil.copytree("/repo/src", src, ignore=shutil.ignore_patterns("__pycache__"))
        apply(src, m["edits"])
        r = subprocess.run(["/venv/bin/python", "-c", "import kio.serial, kio.records.readers, kio.records.writers"],
                           env={**os.environ, "PYTHONPATH": src}, capture_output=True, text=True, cwd="/")
        if r.returncode != 0:
            out["error"] = "does not import: " + r.stderr[-300:]
            return out
        if with_tests:
            try:
                t = subprocess.run(["/venv/bin/python", "-m", "pytest", "-q", "-x", "-p", "no:cacheprovider", "--timeout=120", *UNIT_TESTS],
                                   env={**os.environ, "PYTHONPATH": src}, capture_output=True, text=True, cwd="/repo", timeout=900)
                failed = [ln for ln in t.stdout.splitlines() if ln.startswith("FAILED")]
                out["unit_tests"] = "pass" if t.returncode == 0 else "FAIL: " + (failed[0] if failed else t.stdout[-200:])
            except subprocess.TimeoutExpired:
                out["unit_tests"] = "FAIL: timeout"
        for prop in m["props"]:
            env = {**os.environ, "KIO_VERIF_SRC": src, "KIO_VERIF_EVIDENCE_DIR": os.path.join(tmp, "ev"),
                   "KIO_VERIF_REPLAY_DIR": os.path.join(tmp, "rp")}
            t0 = time.monotonic()
            try:
                c = subprocess.run(["timeout", "-s", "KILL", "1500", os.path.join(core.VERIF, "check"), prop, "--tier", tier],
                                   env=env, capture_output=True, text=True, cwd=core.VERIF, timeout=1600)
                viol = [ln for ln in c.stdout.splitlines() if ln.startswith("VIOLATION ")]
                sigs = [ln.strip() for ln in c.stdout.splitlines() if ln.strip().startswith("violation:")]
                # every reported replay file must reproduce its violation in a fresh process
                replays_ok = replays_bad = 0
                for ln in viol:
                    path = ln.split("replay=", 1)[-1].strip()
                    rp = subprocess.run([os.path.join(core.VERIF, "check"), prop, "--replay", path], env=env, capture_output=True,
                                        text=True, cwd=core.VERIF, timeout=900)
                    same = False
                    for rl in rp.stdout.splitlines():
                        if rl.startswith("REPLAY property=") and "recorded=" in rl:
                            rec = rl.split("recorded=", 1)[1].split(" observed=")[0]
                            obs = rl.split(" observed=", 1)[1]
                            same = rec == obs
                    if rp.returncode == 1 and same:
                        replays_ok += 1
                    else:
                        replays_bad += 1
                out["props"][prop] = {"exit": c.returncode, "detected": c.returncode == 1 and bool(viol),
                                      "signatures": sigs[:4], "wall_s": round(time.monotonic() - t0, 1),
                                      "replays_reproduced": replays_ok, "replays_not_reproduced": replays_bad}
                if c.returncode not in (0, 1):
                    out["props"][prop]["tail"] = (c.stdout + c.stderr)[-400:]
            except subprocess.TimeoutExpired:
                out["props"][prop] = {"exit": None, "detected": False, "signatures": ["timeout"], "wall_s": round(time.monotonic() - t0, 1)}
    finally:
        if not keep:
            shutil.rmtree(tmp, ignore_errors=True)
    return out


def main(argv) -> int:
    ap = argparse.ArgumentParser()
    ap.add_argument("--only", action="append")
    ap.add_argument("--prop")
    ap.add_argument("--with-tests", action="store_true")
    ap.add_argument("--tier", default="quick")
    ap.add_argument("--out", default=os.path.join(core.VERIF, "selftest", "sensitivity.json"))
    args = ap.parse_args(argv)
    todo = [m for m in MUTANTS if (not args.only or m["id"] in args.only) and (not args.prop or args.prop in m["props"])]
    if args.prop:
        todo = [{**m, "props": [args.prop]} for m in todo]
    results = []
    missed = 0
    for m in todo:
        r = run_one(m, args.tier, args.with_tests)
        results.append(r)
        primary = m["props"][0]
        for prop, pr in r["props"].items():
            flag = "DETECTED" if pr["detected"] else "missed"
            if prop == primary and not pr["detected"]:
                if m.get("expect", "").startswith("miss"):
                    flag = "missed (expected)"
                else:
                    missed += 1
            print(f"{m['id']:45s} {prop} {flag:8s} exit={pr['exit']} {pr['wall_s']}s replays={pr.get('replays_reproduced')}/"
                  f"{(pr.get('replays_reproduced') or 0) + (pr.get('replays_not_reproduced') or 0)} {pr['signatures'][:2]}", flush=True)
        if r.get("error"):
            print(f"{m['id']:45s} ERROR {r['error']}", flush=True)
        if r.get("unit_tests") not in (None, "pass"):
            print(f"{m['id']:45s} unit tests: {r['unit_tests']}", flush=True)
    if not args.only and not args.prop:
        os.makedirs(os.path.dirname(args.out), exist_ok=True)
        with open(args.out, "w") as f:
            json.dump({"tier": args.tier, "with_tests": args.with_tests, "results": results}, f, indent=1)
            f.write("\n")
    print(f"sensitivity: {len(todo)} mutants, {missed} missed by their primary check")
    return 0 if missed == 0 else 1
