"""MANIFEST.setup_cmd: nothing to build (pure Python on the repo's own venv);
verifies the offline prerequisites instead and fails loudly if one is missing."""

import os
import sys


def main(argv) -> int:
    from sim import core

    ok = True
    try:
        core.import_kio()
        import crc32c  # noqa: F401  (kio.records dependency, ships in /venv)

        from sim import universe

        n = len(universe.load())
        print(f"setup: kio importable from {core.SRC}; {n} entity classes; python {sys.version.split()[0]}")
        if n < 100:
            ok = False
    except Exception as e:  # noqa: BLE001
        print(f"setup: FAILED {type(e).__name__}: {e}")
        ok = False
    for d in (core.EVIDENCE_DIR, core.REPLAY_DIR):
        os.makedirs(d, exist_ok=True)
    return 0 if ok else 2
