"""./check dispatcher."""

import importlib
import sys

CHECKS = {"C06": "sim.c06", "C07": "sim.c07", "C10": "sim.c10", "C18": "sim.c18", "C19": "sim.c19"}
TOOLS = {"selftest-determinism": "sim.selftest_determinism", "selftest-sensitivity": "sim.selftest_sensitivity",
         "setup": "sim.setup"}


def main() -> int:
    if len(sys.argv) < 2 or sys.argv[1] in ("-h", "--help"):
        print("usage: ./check <" + "|".join(list(CHECKS) + list(TOOLS)) + "> [--tier quick|thorough] [--seed N] [--replay FILE]")
        return 2
    name = sys.argv[1]
    if name in CHECKS:
        from sim import driver

        mod = importlib.import_module(CHECKS[name])
        return driver.main(mod, sys.argv[2:])
    if name in TOOLS:
        mod = importlib.import_module(TOOLS[name])
        return mod.main(sys.argv[2:])
    print(f"unknown check {name!r}")
    return 2


if __name__ == "__main__":
    raise SystemExit(main())
