"""Golden encodings, clean pre-pass and field map (shared by the checks)."""

from __future__ import annotations

import io

from . import gen, streams, universe


class _CountingSink(io.BytesIO):
    def __init__(self) -> None:
        super().__init__()
        self.ncalls = 0

    def write(self, b):
        self.ncalls += 1
        return super().write(b)


class Golden:
    __slots__ = ("cls", "inst", "tree", "data", "reads", "writes", "shape")

    def __init__(self, cls, inst, tree, data, reads, writes, shape):
        self.cls = cls
        self.inst = inst
        self.tree = tree
        self.data = data
        self.reads = reads  # [(offset, n)] of the clean decode
        self.writes = writes  # number of write calls of the clean encode
        self.shape = shape


def encode_clean(cls, inst) -> tuple[bytes, int]:
    from kio.serial import entity_writer

    # a real BytesIO: the clean pre-pass must not depend on API discipline
    # (that is C07's subject); write calls are counted on the side
    sink = _CountingSink()
    entity_writer(cls)(sink, inst)
    return sink.getvalue(), sink.ncalls


def decode_clean(cls, data: bytes):
    from kio.serial import entity_reader

    src = streams.RecordingBytesIO(data)
    val = entity_reader(cls)(src)
    src.pos = src.tell()
    return val, src


def make_golden(rng, cls, shape=None, stats=None) -> Golden | None:
    """Generate an instance that survives the clean pre-pass (encode, decode,
    compare, exact consumption).  Returns None (and counts) when it does not:
    round-trip identity itself is property C01, not ours."""
    shape = shape or gen.draw_shape(rng)
    inst = gen.gen_instance(rng, cls, shape)
    return golden_of(cls, inst, shape, stats)


def golden_of(cls, inst, shape=None, stats=None) -> Golden | None:
    try:
        data, nw = encode_clean(cls, inst)
        val, src = decode_clean(cls, data)
        ok = val == inst and type(val) is cls and src.pos == len(data)
    except Exception:  # noqa: BLE001
        ok = False
    if not ok:
        if stats is not None:
            stats.inc("discarded_by_prepass")
        return None
    return Golden(cls, inst, gen.to_tree(inst), data, src.calls, nw, shape)


def hot_positions(g: Golden) -> list[int]:
    """Offsets inside or adjacent to every read boundary of the clean decode
    (length prefixes, varint bytes, tag numbers, field boundaries)."""
    n = len(g.data)
    pos = set()
    for off, k in g.reads:
        for p in (off - 1, off, off + 1, off + k - 1, off + k, off + k + 1):
            if 0 <= p < n:
                pos.add(p)
    return sorted(pos)


def read_budget(data_len: int, cls) -> int:
    return 4 * (data_len + universe.n_fields_reachable(cls)) + 64
