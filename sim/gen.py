"""Instance generator for schema entities, driven only by dataclasses.fields(),
the annotations and metadata["kafka_type"] (it does not use kio.serial's
introspection).  Plus a JSON tree form of instances so that scenarios are
replayable and shrinkable without a PRNG.
"""

from __future__ import annotations

import dataclasses
import datetime
import importlib
import math
import struct
import typing
import uuid

from . import universe

UTC = datetime.timezone.utc
MAX_TS_S = 253402300799  # 9999-12-31T23:59:59Z

SHAPES = ("tiny", "small", "medium", "boundary", "wide", "nully", "taggy", "big", "long_array", "small", "medium", "huge")


def draw_shape(rng) -> dict:
    name = rng.choice(SHAPES)
    base = {
        "name": name,
        "fan": 2,
        "str": "small",
        "null_rate": 0.2,
        "nondefault_rate": 0.5,
        "budget": 60,
    }
    if name == "tiny":
        base.update(fan=1, null_rate=0.5, nondefault_rate=0.1, budget=12)
    elif name == "small":
        pass
    elif name == "medium":
        base.update(fan=4, budget=150)
    elif name == "boundary":
        base.update(str="boundary", fan=2, budget=40)
    elif name == "wide":
        base.update(fan=9, budget=250, nondefault_rate=0.7)
    elif name == "nully":
        base.update(null_rate=0.8, nondefault_rate=0.6)
    elif name == "taggy":
        base.update(nondefault_rate=0.95, null_rate=0.05, fan=2)
    elif name == "big":
        base.update(str="big", fan=2, budget=30)
    elif name == "huge":
        # one bytes/records value at a power-of-two boundary >= 64 KiB (strings stay small)
        base.update(str="huge", fan=1, budget=20, null_rate=0.05, nondefault_rate=0.7)
    elif name == "long_array":
        # one array with 126..130 elements (two-byte compact array count)
        base.update(fan=2, budget=60, long_arrays=1, null_rate=0.1, nondefault_rate=0.8)
    return base


MIN_SHAPE = {"name": "min", "fan": 0, "str": "small", "null_rate": 1.0, "nondefault_rate": 0.0, "budget": 4}


class _Ctx:
    __slots__ = ("rng", "shape", "budget", "big_left", "long_left")

    def __init__(self, rng, shape):
        self.rng = rng
        self.shape = shape
        self.budget = shape["budget"]
        self.big_left = 1  # at most one very long string per instance
        self.long_left = shape.get("long_arrays", 0)


def parse_type(tp) -> tuple[bool, bool, bool, object]:
    """-> (optional, is_array, element_optional, inner_type)"""
    optional = False
    args = typing.get_args(tp)
    origin = typing.get_origin(tp)
    if origin is not None and origin is not tuple and type(None) in args:
        optional = True
        rest = [a for a in args if a is not type(None)]
        assert len(rest) == 1, tp
        tp = rest[0]
        origin = typing.get_origin(tp)
        args = typing.get_args(tp)
    if origin is tuple:
        assert len(args) == 2 and args[1] is Ellipsis, tp
        el = args[0]
        el_opt = False
        if typing.get_origin(el) is not None and type(None) in typing.get_args(el):
            el_opt = True
            rest = [a for a in typing.get_args(el) if a is not type(None)]
            assert len(rest) == 1
            el = rest[0]
        return optional, True, el_opt, el
    return optional, False, False, tp


_ALPHA1 = "abcxyzABC019_-. "
_ALPHA2 = "éñßΩЖ"
_ALPHA3 = "€中文ஹ￮"
_ALPHA4 = "\U0001f600\U00010348\U0001f4a9"


def gen_str_of_bytes(rng, nbytes: int) -> str:
    out = []
    left = nbytes
    while left > 0:
        w = rng.choice((1, 1, 1, 2, 3, 4))
        if w > left:
            w = 1
        out.append(rng.choice((_ALPHA1, _ALPHA2, _ALPHA3, _ALPHA4)[w - 1]))
        left -= w
    return "".join(out)


def _length(ctx: _Ctx, flexible: bool, legacy_max: int) -> int:
    rng = ctx.rng
    s = ctx.shape["str"]
    if s == "boundary":
        return rng.choice((0, 1, 2, 126, 127, 128, 129, 255, 256))
    if s == "huge":
        return rng.randint(0, 12)
    if s == "big" and ctx.big_left > 0 and rng.random() < 0.5:
        ctx.big_left -= 1
        if flexible:
            return rng.choice((16382, 16383, 16384, 300, 1000, 32767, 32768, 40000))
        return rng.choice((min(legacy_max, 32767), 300, 1000, 16384))
    r = rng.random()
    if r < 0.15:
        return 0
    if r < 0.9:
        return rng.randint(1, 12)
    return rng.randint(13, 70)


def _int_range(tp, kafka_type: str) -> tuple[int, int]:
    lo = getattr(tp, "__low__", None)
    hi = getattr(tp, "__high__", None)
    if lo is None or hi is None:
        bits = {"int8": 8, "int16": 16, "int32": 32, "int64": 64}.get(kafka_type)
        if bits:
            return -(1 << (bits - 1)), (1 << (bits - 1)) - 1
        ubits = {"uint8": 8, "uint16": 16, "uint32": 32, "uint64": 64}[kafka_type]
        return 0, (1 << ubits) - 1
    return lo, hi


def _gen_int(rng, lo: int, hi: int) -> int:
    r = rng.random()
    if r < 0.3:
        cands = [v for v in (lo, hi, 0, -1, 1, lo + 1, hi - 1, 127, 128, 255, 256) if lo <= v <= hi]
        return rng.choice(cands)
    if r < 0.65:
        a, b = max(lo, -1000), min(hi, 1000)
        return rng.randint(a, b)
    return rng.randint(lo, hi)


def _gen_float(rng) -> float:
    r = rng.random()
    if r < 0.2:
        return rng.choice((0.0, -0.0, 1.0, -1.5, 1e308, 5e-324, -1e-300))
    if r < 0.6:
        return rng.uniform(-1e6, 1e6)
    while True:
        (v,) = struct.unpack(">d", rng.randbytes(8))
        if math.isfinite(v):
            return v


def _gen_timedelta(rng, lo_ms: int, hi_ms: int) -> datetime.timedelta:
    for _ in range(30):
        r = rng.random()
        if r < 0.3:
            ms = rng.choice([v for v in (lo_ms, hi_ms, 0, 1, -1, 1000, 999, -999) if lo_ms <= v <= hi_ms])
        elif r < 0.7:
            ms = rng.randint(max(lo_ms, -10_000_000), min(hi_ms, 10_000_000))
        else:
            ms = rng.randint(lo_ms, hi_ms)
        try:
            td = datetime.timedelta(milliseconds=ms)
        except OverflowError:
            continue
        if round(td.total_seconds() * 1000) == ms and datetime.timedelta(milliseconds=round(td.total_seconds() * 1000)) == td:
            return td
    return datetime.timedelta(0)


_TZ_OFFSETS_MIN = (0, 0, 330, -480, 840, -720, 60, -210, 345)


def _gen_datetime(rng) -> datetime.datetime:
    r = rng.random()
    if r < 0.25:
        s = rng.choice((0, 1, MAX_TS_S, MAX_TS_S - 1, 86399, 86400, 2**31 - 1, 2**31, 2**32))
    elif r < 0.7:
        s = rng.randint(946684800, 2208988800)  # 2000..2040
    else:
        s = rng.randint(0, MAX_TS_S)
    off = rng.choice(_TZ_OFFSETS_MIN)
    return datetime_from(s, off)


def datetime_from(s: int, off_min: int) -> datetime.datetime:
    dt = datetime.datetime(1970, 1, 1, tzinfo=UTC) + datetime.timedelta(seconds=s)
    if off_min:
        try:
            return dt.astimezone(datetime.timezone(datetime.timedelta(minutes=off_min)))
        except OverflowError:
            return dt
    return dt


_HUGE_SIZES = (65535, 65536, 65537, 131072, 131073, 196608)


def _gen_leaf(ctx: _Ctx, cls: type, tp, kafka_type: str):
    rng = ctx.rng
    flexible = cls.__flexible__
    if kafka_type in ("bytes", "records") and ctx.shape["str"] == "huge" and ctx.big_left > 0:
        ctx.big_left -= 1
        return rng.randbytes(rng.choice(ctx.shape.get("huge_sizes") or _HUGE_SIZES))
    if kafka_type in ("int8", "int16", "int32", "int64", "uint8", "uint16", "uint32", "uint64"):
        lo, hi = _int_range(tp, kafka_type)
        return _gen_int(rng, lo, hi)
    if kafka_type == "string":
        v = gen_str_of_bytes(rng, _length(ctx, flexible, 32767))
        if isinstance(tp, type) and tp is not str and issubclass(tp, str) and rng.random() < 0.5:
            return tp(v)  # a real TopicName / GroupId / TransactionalId instance, not a plain str
        return v
    if kafka_type in ("bytes", "records"):
        return rng.randbytes(_length(ctx, flexible, 70000))
    if kafka_type == "uuid":
        if rng.random() < ctx.shape["null_rate"]:
            return None
        if rng.random() < 0.25:
            # leading / trailing zero bytes, all ones: values a sloppy zero-check could mistake for null
            return uuid.UUID(int=rng.choice((1, 255, 256, 2**64, 2**120, 2**127, 2**128 - 1, 2**64 - 1)))
        return uuid.UUID(int=rng.getrandbits(128) or 1)
    if kafka_type == "bool":
        return rng.random() < 0.5
    if kafka_type == "float64":
        return _gen_float(rng)
    if kafka_type == "error_code":
        from kio.schema.errors import ErrorCode

        return rng.choice(_error_codes(ErrorCode))
    if kafka_type == "timedelta_i32":
        return _gen_timedelta(rng, -(2**31), 2**31 - 1)
    if kafka_type == "timedelta_i64":
        lo = datetime.timedelta.min // datetime.timedelta(milliseconds=1)
        hi = (datetime.timedelta.max - datetime.timedelta(days=1)) // datetime.timedelta(milliseconds=1)
        return _gen_timedelta(rng, lo, hi)
    if kafka_type == "datetime_i64":
        return _gen_datetime(rng)
    raise NotImplementedError(kafka_type)


_ec_cache = None


def _error_codes(ErrorCode):
    global _ec_cache
    if _ec_cache is None:
        _ec_cache = sorted(ErrorCode, key=lambda e: e.value)
    return _ec_cache


_MISSING = dataclasses.MISSING


def _gen_value(ctx: _Ctx, cls: type, f: dataclasses.Field, depth: int):
    rng = ctx.rng
    optional, is_array, el_opt, inner = parse_type(f.type)
    kafka_type = f.metadata.get("kafka_type")
    is_struct = dataclasses.is_dataclass(inner)
    nullable_leaf = kafka_type == "uuid"

    def one():
        if is_struct:
            return _gen_instance(ctx, inner, depth + 1)
        return _gen_leaf(ctx, cls, inner, kafka_type)

    if optional and not nullable_leaf and rng.random() < ctx.shape["null_rate"]:
        return None
    if is_array:
        fan = ctx.shape["fan"]
        if ctx.long_left > 0 and depth <= 2 and rng.random() < 0.7:
            ctx.long_left -= 1
            n = rng.choice((126, 127, 128, 130))
            if not is_struct and kafka_type in ("int8", "int16", "int32", "int64", "bool", "uuid") and rng.random() < 0.15:
                n = rng.choice((16382, 16383, 16384))  # three-byte compact array count
            saved = ctx.shape
            ctx.shape = {**saved, "fan": 0, "str": "small", "nondefault_rate": 0.2}
            ctx.budget += 4 * n
            items = []
            for _ in range(n):
                ctx.budget -= 1
                items.append(None if (el_opt and not nullable_leaf and rng.random() < 0.1) else one())
            ctx.shape = saved
            return tuple(items)
        if depth >= 6 or ctx.budget <= 0:
            n = 0
        else:
            r = rng.random()
            n = 0 if r < 0.2 else (1 if r < 0.5 else rng.randint(0, fan))
        items = []
        for _ in range(n):
            if ctx.budget <= 0:
                break
            ctx.budget -= 1
            if el_opt and not nullable_leaf and rng.random() < ctx.shape["null_rate"]:
                items.append(None)
            else:
                items.append(one())
        return tuple(items)
    ctx.budget -= 1
    return one()


def _gen_instance(ctx: _Ctx, cls: type, depth: int):
    kwargs = {}
    for f in dataclasses.fields(cls):
        has_default = f.default is not _MISSING or f.default_factory is not _MISSING
        if has_default and ctx.rng.random() >= ctx.shape["nondefault_rate"]:
            continue
        kwargs[f.name] = _gen_value(ctx, cls, f, depth)
    return cls(**kwargs)


def gen_instance(rng, cls: type, shape: dict | None = None):
    shape = shape or draw_shape(rng)
    return _gen_instance(_Ctx(rng, shape), cls, 0)


# --------------------------------------------------------------------------
# JSON tree form


def to_tree(x):
    if isinstance(x, str) and type(x) is not str:
        return {"strsub": f"{type(x).__module__}:{type(x).__name__}", "v": str(x)}
    if x is None or isinstance(x, (bool, str)):
        return x
    if dataclasses.is_dataclass(x) and not isinstance(x, type):
        cls = type(x)
        return {"$": universe.qualname(cls), "f": {f.name: to_tree(getattr(x, f.name)) for f in dataclasses.fields(cls)}}
    import enum

    if isinstance(x, enum.Enum):
        return {"ec": x.value}
    if isinstance(x, int):
        return int(x)
    if isinstance(x, float):
        return {"f64": struct.pack(">d", x).hex()}
    if isinstance(x, (bytes, bytearray)):
        return {"b": bytes(x).hex()}
    if isinstance(x, uuid.UUID):
        return {"u": x.hex}
    if isinstance(x, datetime.datetime):
        off = x.utcoffset()
        s = (x - datetime.datetime(1970, 1, 1, tzinfo=UTC)) // datetime.timedelta(microseconds=1)
        return {"dt_us": s, "off_min": int(off.total_seconds() // 60) if off is not None else None}
    if isinstance(x, datetime.timedelta):
        return {"td_us": x // datetime.timedelta(microseconds=1)}
    if isinstance(x, (tuple, list)):
        return [to_tree(v) for v in x]
    raise TypeError(f"cannot serialise {type(x)!r}")


def from_tree(t):
    if t is None or isinstance(t, (bool, str, int)):
        return t
    if isinstance(t, list):
        return tuple(from_tree(v) for v in t)
    if "$" in t:
        mod, name = t["$"].split(":")
        cls = getattr(importlib.import_module(mod), name)
        return cls(**{k: from_tree(v) for k, v in t["f"].items()})
    if "strsub" in t:
        mod, name = t["strsub"].split(":")
        return getattr(importlib.import_module(mod), name)(t["v"])
    if "ec" in t:
        from kio.schema.errors import ErrorCode

        return ErrorCode(t["ec"])
    if "f64" in t:
        return struct.unpack(">d", bytes.fromhex(t["f64"]))[0]
    if "b" in t:
        return bytes.fromhex(t["b"])
    if "u" in t:
        return uuid.UUID(hex=t["u"])
    if "dt_us" in t:
        dt = datetime.datetime(1970, 1, 1, tzinfo=UTC) + datetime.timedelta(microseconds=t["dt_us"])
        if t.get("off_min"):
            dt = dt.astimezone(datetime.timezone(datetime.timedelta(minutes=t["off_min"])))
        return dt
    if "td_us" in t:
        return datetime.timedelta(microseconds=t["td_us"])
    raise TypeError(f"bad tree node {t!r}")


def tree_candidates(t):
    """Yield strictly simpler variants of an instance tree (for shrinking)."""
    if isinstance(t, dict) and "$" in t:
        mod, name = t["$"].split(":")
        cls = getattr(importlib.import_module(mod), name)
        flds = {f.name: f for f in dataclasses.fields(cls)}
        for k in sorted(t["f"]):
            f = flds.get(k)
            v = t["f"][k]
            if f is not None and (f.default is not _MISSING) and to_tree(f.default) != v:
                nf = dict(t["f"])
                del nf[k]
                yield {"$": t["$"], "f": nf}
            if f is not None and v is not None and parse_type(f.type)[0]:
                nf = dict(t["f"])
                nf[k] = None
                yield {"$": t["$"], "f": nf}
            for sub in tree_candidates(v):
                nf = dict(t["f"])
                nf[k] = sub
                yield {"$": t["$"], "f": nf}
    elif isinstance(t, list):
        if t:
            yield []
            if len(t) > 1:
                yield t[: len(t) // 2]
                for i in range(len(t)):
                    yield t[:i] + t[i + 1 :]
            for i, v in enumerate(t):
                for sub in tree_candidates(v):
                    yield t[:i] + [sub] + t[i + 1 :]
    elif isinstance(t, str):
        if t:
            yield ""
            if len(t) > 1:
                yield t[: len(t) // 2]
                yield "a" * len(t)
    elif isinstance(t, dict) and "b" in t:
        if t["b"]:
            yield {"b": ""}
            if len(t["b"]) > 2:
                yield {"b": t["b"][: (len(t["b"]) // 4) * 2]}
    elif isinstance(t, int) and not isinstance(t, bool):
        if t != 0:
            yield 0
    elif isinstance(t, dict) and "u" in t:
        yield None


# --------------------------------------------------------------------------
# "twins": values that compare (and hash) equal but encode differently - the
# classic hazard for anything memoised by value.  In kio's value domain the
# only such pair is +0.0 / -0.0 in float64 fields.

_POS0, _NEG0 = "0000000000000000", "8000000000000000"


def has_float(t) -> bool:
    if isinstance(t, dict):
        if "f64" in t:
            return True
        if "$" in t:
            return any(has_float(v) for v in t["f"].values())
        return False
    if isinstance(t, list):
        return any(has_float(v) for v in t)
    return False


def _map_floats(t, fn):
    if isinstance(t, dict):
        if "f64" in t:
            return {"f64": fn(t["f64"])}
        if "$" in t:
            return {"$": t["$"], "f": {k: _map_floats(v, fn) for k, v in t["f"].items()}}
        return t
    if isinstance(t, list):
        return [_map_floats(v, fn) for v in t]
    return t


def zero_twins(rng, tree):
    """-> (a, b): a has every float leaf set to +0.0 or -0.0, b is a with the
    signs flipped; a == b as instances, their encodings differ."""
    a = _map_floats(tree, lambda h: rng.choice((_POS0, _NEG0)))
    b = _map_floats(a, lambda h: _NEG0 if h == _POS0 else _POS0)
    return a, b
