"""./check selftest-determinism [--seeds N] [--max-tasks K]

For every check and for several VERIF_SEED values: run the same slice in fresh
interpreters under {PYTHONHASHSEED 0, 12345} x {16 workers, 1 worker} and twice
under the default configuration; all run digests must be identical."""

from __future__ import annotations

import argparse
import json
import os
import subprocess
import time

from . import core

CHECKS = ("C06", "C07", "C10", "C18", "C19")


def digest_of(check: str, seed: int, max_tasks: int, hashseed: str, workers: str) -> str:
    env = {**os.environ, "KIO_VERIF_HASHSEED": hashseed, "KIO_VERIF_WORKERS": workers}
    c = subprocess.run(["timeout", "-s", "KILL", "900", os.path.join(core.VERIF, "check"), check, "--tier", "quick", "--seed", str(seed),
                        "--max-tasks", str(max_tasks), "--digest-only"], env=env, capture_output=True, text=True, cwd=core.VERIF)
    for ln in c.stdout.splitlines():
        if ln.startswith("DIGEST "):
            return ln.split()[1]
    raise core.HarnessError(f"no digest from {check} seed={seed}: exit={c.returncode} {c.stdout[-300:]} {c.stderr[-300:]}")


def main(argv) -> int:
    ap = argparse.ArgumentParser()
    ap.add_argument("--seeds", type=int, default=3)
    ap.add_argument("--max-tasks", type=int, default=24)
    ap.add_argument("--check", action="append")
    args = ap.parse_args(argv)
    bad = 0
    rows = []
    t0 = time.monotonic()
    for check in args.check or CHECKS:
        for k in range(args.seeds):
            seed = 1000 + 7919 * k
            configs = [("0", "16"), ("0", "16"), ("12345", "16"), ("0", "1"), ("98765", "3")]
            digs = [digest_of(check, seed, args.max_tasks, h, w) for h, w in configs]
            ok = len(set(digs)) == 1
            bad += 0 if ok else 1
            rows.append({"check": check, "seed": seed, "digests": digs, "identical": ok})
            print(f"{check} seed={seed} {'identical' if ok else 'DIVERGED'} {digs[0][:16]} x{len(digs)}"
                  + ("" if ok else " " + " ".join(d[:12] for d in digs)), flush=True)
    out = os.path.join(core.VERIF, "selftest", "determinism.json")
    os.makedirs(os.path.dirname(out), exist_ok=True)
    with open(out, "w") as f:
        json.dump({"configs": "hashseed/workers: 0/16, 0/16, 12345/16, 0/1, 98765/3", "max_tasks": args.max_tasks, "rows": rows,
                   "wall_s": round(time.monotonic() - t0, 1)}, f, indent=1)
        f.write("\n")
    print(f"determinism: {len(rows)} (check, seed) pairs x 5 fresh interpreters, {bad} diverged")
    return 0 if bad == 0 else 1
