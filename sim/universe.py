"""Entity universe: every dataclass of every version module of kio.schema.

Walked with pkgutil (not through kio.index, which is another property's
subject).  Order is the sorted order of (module name, class name): stable
across processes and hash seeds.
"""

from __future__ import annotations

import dataclasses
import importlib
import pkgutil
import re

_MOD_RE = re.compile(r"^kio\.schema\.([a-z0-9_]+)\.v(\d+)\.([a-z_]+)$")

_universe: list[type] | None = None
_by_name: dict[str, type] = {}


def qualname(cls: type) -> str:
    return f"{cls.__module__}:{cls.__name__}"


def load() -> list[type]:
    global _universe
    if _universe is not None:
        return _universe
    import kio.schema

    names = sorted(
        m.name
        for m in pkgutil.walk_packages(kio.schema.__path__, "kio.schema.")
        if not m.ispkg and _MOD_RE.match(m.name)
    )
    out = []
    for name in names:
        mod = importlib.import_module(name)
        for k in sorted(vars(mod)):
            v = vars(mod)[k]
            if isinstance(v, type) and dataclasses.is_dataclass(v) and v.__module__ == name:
                out.append(v)
                _by_name[qualname(v)] = v
    _universe = out
    return out


def register(cls: type) -> None:
    """Make a class outside kio.schema (sim.synth) resolvable by name without adding it to the universe."""
    _by_name[qualname(cls)] = cls


def by_name(q: str) -> type:
    load()
    if q not in _by_name and q.startswith("sim.synth:"):
        from . import synth

        synth.load()
    return _by_name[q]


def api_of(cls: type) -> tuple[str, int, str]:
    m = _MOD_RE.match(cls.__module__)
    assert m, cls.__module__
    return m.group(1), int(m.group(2)), m.group(3)


def kind(cls: type) -> str:
    return cls.__type__.name


def has_tagged_fields(cls: type) -> bool:
    return any("tag" in f.metadata for f in dataclasses.fields(cls))


def reachable_classes(cls: type, seen: set | None = None) -> set:
    import typing

    seen = set() if seen is None else seen
    if cls in seen:
        return seen
    seen.add(cls)
    for f in dataclasses.fields(cls):
        for t in _leaf_types(f.type):
            if dataclasses.is_dataclass(t):
                reachable_classes(t, seen)
    return seen


def _leaf_types(tp):
    import types
    import typing

    origin = typing.get_origin(tp)
    if origin is None:
        yield tp
        return
    for a in typing.get_args(tp):
        if a is Ellipsis or a is type(None):
            continue
        yield from _leaf_types(a)


def n_fields_reachable(cls: type) -> int:
    return sum(len(dataclasses.fields(c)) for c in reachable_classes(cls))


def features(cls: type) -> set[str]:
    """Coarse feature tags used for stratified sampling."""
    feats = {kind(cls), "flexible" if cls.__flexible__ else "legacy"}
    for c in reachable_classes(cls):
        for f in dataclasses.fields(c):
            kt = f.metadata.get("kafka_type")
            if "tag" in f.metadata:
                feats.add("tagged")
            if kt in ("records", "uuid", "datetime_i64", "float64", "timedelta_i64", "bytes", "uint16"):
                feats.add(kt)
            if kt is None:
                import typing

                if typing.get_origin(f.type) is not tuple and type(None) in typing.get_args(f.type):
                    inner = [a for a in typing.get_args(f.type) if a is not type(None)][0]
                    feats.add("nullable_struct" if dataclasses.is_dataclass(inner) else "nullable_struct_array")
    return feats


def field_signatures(cls: type) -> set:
    import typing

    out = set()
    for f in dataclasses.fields(cls):
        tp = f.type
        args = typing.get_args(tp)
        optional = typing.get_origin(tp) is not tuple and type(None) in args
        inner = [a for a in args if a is not type(None)][0] if optional else tp
        is_array = typing.get_origin(inner) is tuple
        el_optional = False
        if is_array:
            el = typing.get_args(inner)[0]
            el_optional = type(None) in typing.get_args(el)
        out.add((f.metadata.get("kafka_type") or "struct", bool(cls.__flexible__), optional, is_array, el_optional,
                 "tag" in f.metadata, cls.__name__ == "RequestHeader" and f.name == "client_id"))
    return out


def stratified_sample(rng, n: int) -> list[type]:
    """Seeded stratified sample: all headers, >=1 class per API, every class
    with tagged fields or a nullable struct, then a uniform fill up to n."""
    uni = load()
    chosen: dict[str, type] = {}

    def take(c):
        chosen.setdefault(qualname(c), c)

    by_api: dict[str, list[type]] = {}
    for c in uni:
        by_api.setdefault(api_of(c)[0], []).append(c)
        if kind(c) == "header":
            take(c)
        if has_tagged_fields(c):
            take(c)
    for c in uni:
        fe = features(c) if (kind(c) in ("request", "response", "data")) else set()
        if fe & {"nullable_struct", "float64", "timedelta_i64", "uint16"}:
            take(c)
    for api in sorted(by_api):
        take(rng.choice(by_api[api]))
    # every distinct field signature (kafka type x flexible x optional x array x
    # tagged) is covered by at least two classes, so that every primitive
    # reader/writer variant kio can select is exercised even in the quick tier
    by_sig: dict = {}
    for c in uni:
        for sig in field_signatures(c):
            by_sig.setdefault(sig, []).append(c)
    for sig in sorted(by_sig, key=repr):
        for c in rng.sample(by_sig[sig], min(2, len(by_sig[sig]))):
            take(c)
    rest = [c for c in uni if qualname(c) not in chosen]
    rng.shuffle(rest)
    for c in rest:
        if len(chosen) >= n:
            break
        take(c)
    return [chosen[k] for k in sorted(chosen)]
