"""Simulated streams: the seams kio already has (the ``buffer`` argument).

SimSource   read-only object with ONLY read(n); scripted EOF / exception / budget
SimSink     write-only object with ONLY write(b); scripted exception; retains
            the written objects to detect later mutation
SimRawSource / SimRawSink   io.RawIOBase objects for use under the real
            io.BufferedReader / io.BufferedWriter (socket.makefile with the
            kernel replaced): scheduler-chosen chunk sizes, scripted EOF/errors
CountingBytesIO  a real io.BytesIO that counts read calls (budget watchdog)
"""

from __future__ import annotations

import io


class SimBudgetExceeded(BaseException):
    """The code under test kept asking the stream for more than any decoder
    that terminates in time proportional to its input could need."""


def same_or_chained(got: BaseException | None, injected: BaseException) -> bool:
    """True when ``got`` is the injected exception or was raised while handling
    it (wrapping a stream error in a library error is legitimate)."""
    seen = 0
    e = got
    while e is not None and seen < 16:
        if e is injected:
            return True
        e = e.__cause__ or e.__context__
        seen += 1
    return False


def make_injected(kind: str, idx: int) -> BaseException:
    if kind == "reset":
        return ConnectionResetError(104, f"sim: connection reset by peer (call {idx})")
    if kind == "timeout":
        return TimeoutError(f"sim: timed out (call {idx})")
    if kind == "eio":
        return OSError(5, f"sim: input/output error (call {idx})")
    if kind == "pipe":
        return BrokenPipeError(32, f"sim: broken pipe (call {idx})")
    if kind == "nospace":
        return OSError(28, f"sim: no space left on device (call {idx})")
    if kind == "cancelled":
        import asyncio

        return asyncio.CancelledError(f"sim: task cancelled inside stream call {idx}")
    if kind == "keyboard":
        return KeyboardInterrupt(f"sim: interrupted inside stream call {idx}")
    raise ValueError(kind)


INJECT_KINDS_READ = ("reset", "timeout", "eio", "cancelled", "keyboard")
INJECT_KINDS_WRITE = ("reset", "pipe", "eio", "nospace", "timeout", "cancelled", "keyboard")


class SimSource:
    """Sequential read-only byte source with buffered-stream semantics."""

    __slots__ = ("data", "pos", "calls", "ncalls", "budget", "touched", "readall", "bad_sizes",
                 "fail_at", "fail_exc", "record", "bytes_out", "eof_hits")

    def __init__(self, data: bytes, *, pos: int = 0, budget: int | None = None, fail_at: int | None = None,
                 fail_exc: BaseException | None = None, record: bool = False) -> None:
        self.data = data
        self.pos = pos
        self.calls: list = []
        self.ncalls = 0
        self.budget = budget
        self.touched: list = []
        self.readall = 0
        self.bad_sizes: list = []
        self.fail_at = fail_at
        self.fail_exc = fail_exc
        self.record = record
        self.bytes_out = 0
        self.eof_hits = 0

    def read(self, n=-1):
        i = self.ncalls
        self.ncalls = i + 1
        if self.budget is not None and i >= self.budget:
            raise SimBudgetExceeded(f"read call #{i} exceeds budget {self.budget}")
        if self.fail_at is not None and i == self.fail_at:
            raise self.fail_exc
        if n is None or (isinstance(n, int) and n < 0):
            self.readall += 1
            if not (n is None or n == -1):
                self.bad_sizes.append(n)
            v = self.data[self.pos:]
        elif isinstance(n, int):
            v = self.data[self.pos:self.pos + n]
            if len(v) < n:
                self.eof_hits += 1
        else:
            self.bad_sizes.append(repr(n))
            raise TypeError(f"integer argument expected, got {type(n).__name__}")
        if self.record:
            self.calls.append((self.pos, n if isinstance(n, int) else -1))
        self.pos += len(v)
        self.bytes_out += len(v)
        return v

    def __getattr__(self, name):
        # only called for attributes that do not exist
        if not name.startswith("__"):
            self.touched.append(name)
        raise AttributeError(f"SimSource has no attribute {name!r}")


class CountingBytesIO(io.BytesIO):
    """A real BytesIO; read calls are counted for the loop watchdog."""

    def __init__(self, data: bytes = b"", budget: int | None = None) -> None:
        super().__init__(data)
        self._n = 0
        self._budget = budget

    def read(self, n=-1):
        self._n += 1
        if self._budget is not None and self._n > self._budget:
            raise SimBudgetExceeded(f"read call #{self._n} exceeds budget {self._budget}")
        return super().read(n)


class RecordingBytesIO(io.BytesIO):
    """A real, fully featured BytesIO that records (offset, n) of every read:
    used for the clean pre-pass, which must not depend on API discipline."""

    def __init__(self, data: bytes = b"") -> None:
        super().__init__(data)
        self.calls: list = []

    def read(self, n=-1):
        off = self.tell()
        v = super().read(n)
        self.calls.append((off, len(v) if (n is None or n < 0) else n))
        return v


class SimSink:
    """Sequential write-only byte sink."""

    __slots__ = ("chunks", "objs", "ncalls", "touched", "returns_none", "fail_at", "fail_exc", "bad_args", "retain")

    def __init__(self, *, returns_none: bool = False, fail_at: int | None = None,
                 fail_exc: BaseException | None = None, retain: bool = True) -> None:
        # retain=True keeps the written objects (to detect later mutation, as a zero-copy
        # transport would); retain=False copies and forgets them, like BytesIO or a file
        self.retain = retain
        self.chunks: list[bytes] = []
        self.objs: list = []
        self.ncalls = 0
        self.touched: list = []
        self.returns_none = returns_none
        self.fail_at = fail_at
        self.fail_exc = fail_exc
        self.bad_args: list = []

    def write(self, b):
        i = self.ncalls
        self.ncalls = i + 1
        if self.fail_at is not None and i == self.fail_at:
            raise self.fail_exc
        if not isinstance(b, (bytes, bytearray, memoryview)):
            self.bad_args.append(type(b).__name__)
            raise TypeError(f"a bytes-like object is required, not {type(b).__name__!r}")
        snap = bytes(b)
        self.chunks.append(snap)
        self.objs.append(b if self.retain else snap)
        return None if self.returns_none else len(snap)

    def __getattr__(self, name):
        if not name.startswith("__"):
            self.touched.append(name)
        raise AttributeError(f"SimSink has no attribute {name!r}")


def sink_data(s: SimSink) -> bytes:
    return b"".join(s.chunks)


def sink_mutated(s: SimSink) -> list[int]:
    """Indices of retained objects whose content changed after write()."""
    return [i for i, (o, c) in enumerate(zip(s.objs, s.chunks)) if bytes(o) != c]


class SimRawSource(io.RawIOBase):
    """Raw readable: readinto returns chunk sizes chosen by ``chunker`` while
    data is available, then EOF (0) or a scripted error."""

    def __init__(self, data: bytes, chunker, *, budget: int | None = None, fail_after: int | None = None,
                 fail_exc: BaseException | None = None) -> None:
        super().__init__()
        self._data = data
        self._pos = 0
        self._chunker = chunker
        self._n = 0
        self._budget = budget
        self._fail_after = fail_after  # byte offset after which the error is raised instead of EOF
        self._fail_exc = fail_exc
        self.chunks_served: list[int] = []

    def readable(self) -> bool:
        return True

    def readinto(self, b) -> int:
        self._n += 1
        if self._budget is not None and self._n > self._budget:
            raise SimBudgetExceeded(f"raw readinto #{self._n} exceeds budget {self._budget}")
        limit = len(self._data) if self._fail_after is None else min(len(self._data), self._fail_after)
        avail = limit - self._pos
        if avail <= 0:
            if self._fail_after is not None and self._fail_exc is not None:
                raise self._fail_exc
            return 0
        n = self._chunker(min(len(b), avail))
        n = max(1, min(n, len(b), avail))
        b[:n] = self._data[self._pos:self._pos + n]
        self._pos += n
        self.chunks_served.append(n)
        return n


class FramedBytesIO(io.BytesIO):
    """A BytesIO holding MORE than the peer delivered (the next frame, stale buffer content):
    read() - the only call kio's contract names - stops at the frame boundary ``limit``;
    everything else is the inherited BytesIO behaviour.  A reader that obtains bytes through
    readinto()/read1()/getbuffer() sees bytes the connection never delivered."""

    def __init__(self, data: bytes, limit: int, budget: int | None = None) -> None:
        super().__init__(data)
        self._limit = limit
        self._budget = budget
        self._n = 0

    def read(self, size=-1):
        self._n += 1
        if self._budget is not None and self._n > self._budget:
            raise SimBudgetExceeded(f"read #{self._n} exceeds budget {self._budget}")
        left = max(0, self._limit - self.tell())
        if size is None or size < 0 or size > left:
            size = left
        return super().read(size)


class SimRawUnbuffered(SimRawSource):
    """The raw source used *directly* (socket.SocketIO / FileIO / pipe style): read(n) returns
    at most n bytes and may come back short before EOF.  io.RawIOBase.read(n) allocates n bytes
    up front, so the allocator is simulated exactly as for AllocLimitedBufferedReader: a single
    request above 1 GiB fails, anything else is served without really reserving n bytes."""

    def read(self, size=-1):
        if size is None or size < 0:
            return self.readall()
        if size > ALLOC_LIMIT:
            raise MemoryError(f"sim: cannot allocate {size} bytes for one read request")
        if size == 0:
            self._n += 1
            if self._budget is not None and self._n > self._budget:
                raise SimBudgetExceeded(f"raw read #{self._n} exceeds budget {self._budget}")
            return b""
        limit = len(self._data) if self._fail_after is None else min(len(self._data), self._fail_after)
        buf = bytearray(max(1, min(size, limit - self._pos)))
        n = self.readinto(buf)
        return bytes(buf[:n])


class SimRawSink(io.RawIOBase):
    """Raw writable: accepts everything (blocking-socket semantics), records
    the segments; optionally raises a scripted error at raw write index i."""

    def __init__(self, *, fail_at: int | None = None, fail_exc: BaseException | None = None) -> None:
        super().__init__()
        self.segments: list[bytes] = []
        self._n = 0
        self._fail_at = fail_at
        self._fail_exc = fail_exc

    def writable(self) -> bool:
        return True

    def write(self, b) -> int:
        i = self._n
        self._n += 1
        if self._fail_at is not None and i == self._fail_at:
            raise self._fail_exc
        self.segments.append(bytes(b))
        return len(b)

    def data(self) -> bytes:
        return b"".join(self.segments)


ALLOC_LIMIT = 1 << 30


class AllocLimitedBufferedReader(io.BufferedReader):
    """A real BufferedReader whose allocator is simulated for huge requests:
    BufferedReader.read(n) allocates n bytes up front; whether that succeeds for
    n in the gigabytes depends on the machine (RAM, overcommit policy, rlimits)
    and on the process's current address-space usage.  To keep runs exactly
    repeatable the decision is made here: a single request above 1 GiB fails
    the way it would on a memory-limited machine."""

    def read(self, n=-1):
        if n is not None and n > ALLOC_LIMIT:
            raise MemoryError(f"sim: cannot allocate {n} bytes for one read request")
        return super().read(n)


def seq_chunker(sizes: list[int]):
    """Chunker that replays a recorded list of sizes, then gives everything."""
    it = iter(sizes)

    def chunk(maxn: int) -> int:
        try:
            return next(it)
        except StopIteration:
            return maxn

    return chunk


def rng_chunker(rng, mode: str):
    if mode == "one":
        return lambda maxn: 1
    if mode == "all":
        return lambda maxn: maxn
    if mode == "small":
        return lambda maxn: rng.randint(1, min(maxn, 7))
    return lambda maxn: rng.randint(1, maxn)


CHUNK_MODES = ("one", "all", "small", "any")

ALL = 1 << 30


def short_read_chunks(rng, n: int = 128) -> list[int]:
    """Chunk script for an *unbuffered* raw source (raw socket, pipe, FileIO): most reads are
    served in full, some come back short although the stream is not at EOF - legal for
    io.RawIOBase.read()."""
    p_short = rng.choice((0.05, 0.2, 0.5, 1.0))
    return [rng.randint(1, 8) if rng.random() < p_short else ALL for _ in range(n)]
