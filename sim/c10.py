"""C10 - malformed input fails fast with a decode error, never an internal
error or hang.

Simulated system: a message in flight (or at rest) hit by a sequence of
corruption faults before kio decodes it.
"""

from __future__ import annotations

import hashlib
import io

from . import core, driver, gen, steps, streams, universe, workload

PROP = "C10"
LEVEL = "exploration"
MEM_GIB = 4.0
KINDS = ("sim", "bytesio", "buffered", "raw")

TIERS = {
    "quick": {"classes": 260, "instances": 3, "faults_per_instance": 500, "random_inputs": 150},
    "thorough": {"classes": None, "instances": 12, "faults_per_instance": 2500, "random_inputs": 1500},
}

FAULT_OPS = ("flip", "overwrite", "insert", "delete", "duplicate", "swap", "truncate_garbage", "splice", "hostile", "repeat")
EXTRA_OPS = ("pipelined_tail",)
HOSTILE = (b"\x7f\xff\xff\xff", b"\xff\xff\xff\xfe", b"\xff\xff\xff\xff\xff", b"\xff\xff\xff\xff\x0f", b"\x80\x00\x00\x00",
           b"\xff\xff\xff\xff\x07", b"\x7f\xff", b"\xff\xfe", b"\x80\x80\x80\x80\x80", b"\xfe\xff\xff\xff\x0f",
           b"\x7f\xff\xff\xff\xff\xff\xff\xff", b"\x80\x00\x00\x00\x00\x00\x00\x00", b"\x00\x00\xff\xff\xff\xff\xff\xff")


def plan(tier: str, seed: int, scale: float = 1.0) -> list[dict]:
    cfg = TIERS[tier]
    uni = universe.load()
    if cfg["classes"] is None:
        classes = list(uni)
    else:
        classes = universe.stratified_sample(core.rng_for(PROP, seed, "sample"), cfg["classes"])
    names = [universe.qualname(c) for c in classes]
    per = 6
    return [{"seed": seed, "classes": names[i:i + per], "instances": cfg["instances"],
             "faults": max(1, int(cfg["faults_per_instance"] * scale)), "random_inputs": max(1, int(cfg["random_inputs"] * scale))}
            for i in range(0, len(names), per)]


# ---- fault model -----------------------------------------------------------


def _pos(rng, n: int, hot: list[int]) -> int:
    if n <= 0:
        return 0
    if hot and rng.random() < 0.7:
        p = rng.choice(hot)
        return min(p, n - 1)
    return rng.randrange(n)


def corrupt(rng, data: bytes, hot: list[int], other: bytes) -> tuple[bytes, list]:
    m = bytearray(data)
    ops = []
    for _ in range(rng.choice((1, 1, 1, 2, 2, 3))):
        op = rng.choice(FAULT_OPS)
        n = len(m)
        if n == 0 and op not in ("insert", "splice", "hostile"):
            op = "insert"
        if op == "flip":
            p = _pos(rng, n, hot)
            bit = rng.choice((7, 7, 0, 1, 2, 3, 4, 5, 6))
            m[p] ^= 1 << bit
            ops.append(("flip", p, bit))
        elif op == "overwrite":
            p = _pos(rng, n, hot)
            v = rng.choice((0x00, 0xFF, 0x80, 0x7F, 0x01, 0xFE, rng.randrange(256)))
            m[p] = v
            ops.append(("overwrite", p, v))
        elif op == "insert":
            p = _pos(rng, n + 1, hot)
            b = rng.randbytes(rng.randint(1, 4))
            m[p:p] = b
            ops.append(("insert", p, b.hex()))
        elif op == "delete":
            p = _pos(rng, n, hot)
            k = rng.randint(1, 4)
            del m[p:p + k]
            ops.append(("delete", p, k))
        elif op == "duplicate":
            p = _pos(rng, n, hot)
            k = rng.randint(1, min(16, n - p))
            m[p:p] = m[p:p + k]
            ops.append(("duplicate", p, k))
        elif op == "swap":
            if n >= 4:
                a = _pos(rng, n - 2, hot)
                k = rng.randint(1, max(1, min(8, (n - a) // 2)))
                b = a + k
                m[a:a + k], m[b:b + k] = m[b:b + k], m[a:a + k]
                ops.append(("swap", a, k))
        elif op == "truncate_garbage":
            p = _pos(rng, n, hot)
            g = rng.randbytes(rng.randint(0, 12))
            m[p:] = g
            ops.append(("truncate_garbage", p, g.hex()))
        elif op == "splice":
            p = _pos(rng, n + 1, hot)
            q = rng.randrange(len(other) + 1) if other else 0
            m[p:] = other[q:]
            ops.append(("splice", p, q))
        elif op == "repeat":
            # one wire element (the bytes between two read boundaries) repeated many times: a long
            # run of identical array items / tagged fields / nested entities inside one message
            p = _pos(rng, n, hot)
            later = [h for h in hot if h > p][:6]
            k = (rng.choice(later) - p) if later and rng.random() < 0.8 else rng.randint(1, min(16, n - p))
            k = max(1, min(k, n - p, 64))
            times = rng.choice((3, 8, 64, 300, 1200))
            times = max(1, min(times, 65536 // k))
            m[p:p] = bytes(m[p:p + k]) * times
            ops.append(("repeat", p, k, times))
        elif op == "hostile":
            p = _pos(rng, n, hot) if n else 0
            h = rng.choice(HOSTILE)
            m[p:p + len(h)] = h
            ops.append(("hostile", p, h.hex()))
    return bytes(m), ops


# ---- oracle ----------------------------------------------------------------


def _open_source(kind: str, data: bytes, budget, chunks):
    if kind == "sim":
        return streams.SimSource(data, budget=budget)
    if kind == "bytesio":
        return streams.CountingBytesIO(data, budget=budget)
    raw = streams.SimRawSource(data, streams.seq_chunker(chunks or []), budget=budget)
    if kind == "raw":
        raw = streams.SimRawUnbuffered(raw._data, raw._chunker, budget=budget)
        # unbuffered raw stream (raw socket / pipe / FileIO): read(n) may legally come back short
        return raw
    return streams.AllocLimitedBufferedReader(raw, buffer_size=16)


LAST_SITE = None


def classify(cls, reader, writer, data: bytes, kind: str, chunks, budget, ok_excs, in_thread: bool = False) -> tuple[str | None, str]:
    """-> (violation signature or None, outcome label for stats)."""
    global LAST_SITE
    LAST_SITE = None
    src = _open_source(kind, data, budget, chunks)
    if in_thread:
        try:
            core.call_in_thread(lambda: None)
        except core.ThreadUnavailable:
            in_thread = False
    try:
        # (now and then the decode runs in a freshly started thread, not the one that imported kio)
        val = core.call_in_thread(reader, src) if in_thread else reader(src)
    except ok_excs as e:
        return None, f"rejected:{type(e).__name__}"
    except streams.SimBudgetExceeded:
        return "loop:stream-call-budget", "loop"
    except core.SimWallAlarm:
        return "wall", "wall"
    except MemoryError as e:
        LAST_SITE = core.exc_site(e)
        return "raised:builtins.MemoryError", "bad"
    except AttributeError as e:
        if kind == "sim" and src.touched:
            return None, "probe:nonsequential-api"
        LAST_SITE = core.exc_site(e)
        return "raised:builtins.AttributeError", "bad"
    except Exception as e:  # noqa: BLE001
        LAST_SITE = core.exc_site(e)
        return f"raised:{type(e).__module__}.{type(e).__name__}", "bad"
    except BaseException as e:  # noqa: BLE001
        return f"raised-base:{type(e).__name__}", "bad"
    if not isinstance(val, cls):
        return f"returned-non-entity:{type(val).__name__}", "bad"
    if kind == "bytesio" and src.tell() > len(data):
        return "consumed-more-bytes-than-given", "bad"
    sink = streams.SimSink()
    try:
        writer(sink, val)
    except Exception as e:  # noqa: BLE001
        LAST_SITE = core.exc_site(e)
        return f"reencode-raised:{type(e).__module__}.{type(e).__name__}", "bad"
    return None, "returned"


def confirm_wall(cls, reader, data, kind, chunks):
    budget = steps.step_budget(len(data), universe.n_fields_reachable(cls))

    def call():
        return reader(_open_source(kind, data, None, chunks))

    _n, _res, exc = steps.count_steps(call, budget)
    if isinstance(exc, steps.StepBudgetExceeded):
        return "loop:line-step-budget"
    return None


def _ok_excs():
    from kio.serial.errors import SerialError

    return (SerialError, ValueError, OverflowError)


def run_task(task: dict) -> dict:
    from kio.serial import entity_reader, entity_writer

    ok_excs = _ok_excs()
    stats = core.Stats()
    log = core.Log()
    violations = []
    vcount: dict = {}
    samples = []
    distinct = set()
    runs = 0
    uni = universe.load()
    for qn in task["classes"]:
        cls = universe.by_name(qn)
        reader, writer = entity_reader(cls), entity_writer(cls)
        nf = universe.n_fields_reachable(cls)
        for k_inst in range(task["instances"] + 1):
            core.gc_tick()
            run_seed = core.derive_seed(PROP, task["seed"], qn, k_inst)
            rng = core.random.Random(run_seed)
            runs += 1
            random_mode = k_inst == task["instances"]
            if random_mode:
                g = None
                base = b""
                hot = []
                n_cases = task["random_inputs"]
            else:
                g = workload.make_golden(rng, cls, stats=stats)
                if g is None:
                    log.add("discard", qn, k_inst)
                    continue
                base = g.data
                hot = sorted({off for off, _ in g.reads} | {off + n - 1 for off, n in g.reads if n > 0})
                n_cases = task["faults"]
                stats.inc("instances")
            # a second valid message of another class, for splices
            other_cls = uni[rng.randrange(len(uni))]
            og = workload.make_golden(rng, other_cls)
            other = og.data if og is not None else b""
            bad_here = 0
            outcomes = core.Stats()
            with core.wall_backstop(300):
                for ci in range(n_cases):
                    if bad_here >= 40:
                        stats.inc("instances_cut_short_after_40_violations")
                        break
                    if random_mode:
                        data = rng.randbytes(rng.choice((0, 1, 2, 3, 5, 8, 13, 21, 34, 55, 96)))
                        ops = [("random", len(data))]
                    else:
                        data, ops = corrupt(rng, base, hot, other)
                        if rng.random() < 0.08:
                            # pipelined data behind the damaged message: > 32 KiB of valid UTF-8 (a reader that
                            # slurps "the rest of the stream" for a negative length then returns something
                            # its own writer rejects)
                            tail = (b"kafka-" * 12000)[:rng.choice((32768, 40000, 70000))]
                            data += tail
                            ops = ops + [("pipelined_tail", len(tail))]
                    r = rng.random()
                    kind = "sim" if r < 0.62 else ("bytesio" if r < 0.82 else ("buffered" if r < 0.92 else "raw"))
                    chunks = None
                    if kind == "raw":
                        chunks = streams.short_read_chunks(rng)
                    if kind == "buffered":
                        mode = rng.choice(streams.CHUNK_MODES)
                        ch = streams.rng_chunker(rng, mode)
                        chunks, left = [], len(data)
                        while left > 0 and len(chunks) < 64:
                            c = ch(left)
                            chunks.append(c)
                            left -= c
                    budget = workload.read_budget(len(data), cls)
                    in_thread = rng.random() < 0.06
                    sig, label = classify(cls, reader, writer, data, kind, chunks, budget, ok_excs, in_thread)
                    stats.inc("cases")
                    if in_thread:
                        stats.inc("cases_decoded_in_a_fresh_thread")
                    outcomes.inc(label)
                    for op in ops:
                        stats.inc(f"fault_{op[0]}")
                    stats.inc(f"source_{kind}")
                    if data != base:
                        # (a digest, not the bytes: inputs with a pipelined tail or a repeated element are
                        # tens of KiB each and a thorough task sees millions of them)
                        distinct.add((qn, data if len(data) <= 32 else hashlib.blake2b(data, digest_size=12).digest(), kind))
                    if sig == "wall":
                        stats.inc("wall_alarms")
                        sig = confirm_wall(cls, reader, data, kind, chunks)
                        if sig is None:
                            stats.inc("wall_alarms_unconfirmed")
                    if sig is None:
                        continue
                    bad_here += 1
                    stats.inc("violating_cases")
                    log.add("viol", qn, k_inst, ci, sig)
                    vkey = (sig, (LAST_SITE or {}).get("file"), (LAST_SITE or {}).get("func"), kind)
                    vcount[vkey] = vcount.get(vkey, 0) + 1
                    if vcount[vkey] <= 2:
                        violations.append({
                            "signature": sig,
                            "run_seed": run_seed,
                            "site": LAST_SITE,
                            "scenario": {"class": qn, "input_hex": data.hex(), "kind": kind, "chunks": chunks, "thread": in_thread,
                                         "provenance": {"base_instance": workload_tree(g), "fault_ops": ops}},
                        })
            for k, v in outcomes.items():
                stats.inc(f"outcome_{k}", v)
            log.add("run", qn, k_inst, len(base), n_cases, bad_here, sorted(outcomes.items()))
            if len(samples) < 2 and not random_mode:
                d, ops = corrupt(core.random.Random(run_seed ^ 1), base, hot, other)
                samples.append({"class": qn, "golden_len": len(base), "example_fault_sequence": ops,
                                "corrupted_hex": d.hex()[:200], "cases_for_this_instance": n_cases})
    return {"stats": dict(stats), "digest": log.digest(), "violations": violations, "samples": samples,
            "distinct": len(distinct), "runs": runs}


def workload_tree(g):
    if g is None:
        return None
    s = core.canon(g.tree)
    return g.tree if len(s) < 4000 else {"truncated_repr": s[:4000]}


# ---- replay / shrink ------------------------------------------------------


def evaluate(scenario: dict):
    from kio.serial import entity_reader, entity_writer

    cls = universe.by_name(scenario["class"])
    data = bytes.fromhex(scenario["input_hex"])
    reader, writer = entity_reader(cls), entity_writer(cls)
    budget = workload.read_budget(len(data), cls)
    with core.wall_backstop(60):
        sig, _ = classify(cls, reader, writer, data, scenario["kind"], scenario.get("chunks"), budget, _ok_excs(),
                          bool(scenario.get("thread")))
    if sig == "wall":
        sig = confirm_wall(cls, reader, data, scenario["kind"], scenario.get("chunks"))
    return sig


def candidates(scenario: dict):
    if scenario.get("thread"):
        yield {**scenario, "thread": False}
    if scenario["kind"] != "sim":
        yield {**scenario, "kind": "sim", "chunks": None}
    data = bytes.fromhex(scenario["input_hex"])
    n = len(data)
    size = n // 2
    while size >= 1:
        for start in range(0, n, size):
            cand = data[:start] + data[start + size:]
            if len(cand) < n:
                yield {**scenario, "input_hex": cand.hex()}
        size //= 2
    for i in range(n):
        if data[i] != 0:
            yield {**scenario, "input_hex": (data[:i] + b"\x00" + data[i + 1:]).hex()}


# ---- known findings ---------------------------------------------------------


def matches_finding(violation: dict, entry: dict) -> bool:
    """A listed finding is pinned to signature + source kind + raise site (+ a
    lower bound on the requested size): anything else is still a VIOLATION."""
    m = entry.get("match", {})
    site = violation.get("site") or {}
    if m.get("signature") != violation["signature"]:
        return False
    if "kind" in m:
        kinds = m["kind"] if isinstance(m["kind"], list) else [m["kind"]]
        if violation["scenario"].get("kind") not in kinds:
            return False
    ms = m.get("raise_site")
    if ms:
        if site.get("file") != ms["file"] or site.get("func") != ms["func"] or ms["code"] not in site.get("code", ""):
            return False
    if "min_requested" in m and not (site.get("requested", -1) >= m["min_requested"]):
        return False
    return True


# ---- evidence --------------------------------------------------------------


def finalize(stats, tier, runs, distinct, samples, wall):
    coverage = {
        "evaluations": stats.get("cases", 0),
        "distinct_nontrivial": distinct,
        "rule": "one evaluation = one decode of one corrupted byte string by entity_reader(T) (+ re-encode of anything returned); inputs are valid "
                "encodings of generated instances hit by a seeded sequence of 1-3 corruption faults (70% at read-boundary hot spots), plus pure random byte strings; "
                "distinct = distinct (class, corrupted bytes, source kind); non-trivial = the bytes differ from the valid encoding",
        "samples": samples,
        "exhaustive": False,
        "instances": stats.get("instances", 0),
        "discarded_by_prepass": stats.get("discarded_by_prepass", 0),
        "faults_fired": {k: v for k, v in sorted(stats.items()) if k.startswith("fault_")},
        "source_kinds": {k: v for k, v in sorted(stats.items()) if k.startswith("source_")},
        "cases_decoded_in_a_fresh_thread": stats.get("cases_decoded_in_a_fresh_thread", 0),
        "outcomes": {k: v for k, v in sorted(stats.items()) if k.startswith("outcome_")},
        "wall_alarms": stats.get("wall_alarms", 0),
        "simulated_time_s": 0,
        "simulated_time_note": "no clock: liveness is measured in stream calls (budget 4*(len+fields)+64) and kio line steps",
        "seeds_per_hour": int(runs / wall * 3600) if wall else 0,
    }
    assumptions = [
        "finite input: the source delivers the corrupted bytes then EOF; read-all requests caused by corrupted negative lengths are served like a real stream",
        "allowed outcomes: an instance of T that re-encodes without raising, or SerialError/ValueError/OverflowError",
        "the buffered source kind is a real io.BufferedReader with a simulated allocator: one read request above 1 GiB raises MemoryError (BufferedReader.read(n) allocates n bytes up front; on a real machine the outcome depends on RAM, overcommit policy and rlimits - here it is decided deterministically); RLIMIT_AS 4 GiB per worker is only a safety net against pre-allocation proportional to a hostile count",
    ]
    problems = []
    n_ok, n_bad = stats.get("instances", 0), stats.get("discarded_by_prepass", 0)
    if n_bad > n_ok:
        problems.append(f"FATAL: {n_bad} of {n_ok + n_bad} generated instances did not survive the clean encode/decode pre-pass "
                        "(round-trip identity, property C01, is broken on this tree; this check cannot judge it)")
    elif n_bad:
        problems.append(f"{n_bad} generated instances discarded by the clean pre-pass")
    for op in FAULT_OPS + EXTRA_OPS:
        if not stats.get(f"fault_{op}"):
            problems.append(f"fault kind {op} never fired")
    if not stats.get("outcome_returned"):
        problems.append("no corrupted input was ever accepted (re-encode clause unexercised)")
    return coverage, assumptions, problems
